#!/usr/bin/env python3
"""check.py <property-id> [--tier quick|thorough] [--only <query-substring>] [--replay <file>]

exit 0: every query UNSAT within its stated bounds, every reachability witness reachable,
        only findings listed in known_findings.jsonl failed (printed as KNOWN-FINDING).
exit 1: `VIOLATION property=<id> replay=<path>` - an assertion or safety check fails on /repo's current tree.
exit 2: machinery problem: build error, unreachable witness, loop bound exceeded, all back ends inconclusive.
"""
import argparse, json, os, re, shutil, sys, time
from concurrent.futures import ThreadPoolExecutor

sys.path.insert(0, os.path.join(os.path.dirname(os.path.abspath(__file__)), "lib"))
import vlib
from vlib import Query
import checks


def load_known():
    path = os.path.join(vlib.VERIF, "known_findings.jsonl")
    known = []
    if os.path.exists(path):
        for line in open(path):
            line = line.strip()
            if line and not line.startswith("#"):
                known.append(json.loads(line))
    return known


def main():
    ap = argparse.ArgumentParser()
    ap.add_argument("pid")
    ap.add_argument("--tier", default=os.environ.get("VERIF_TIER", "quick"))
    ap.add_argument("--only", default=None)
    ap.add_argument("--replay", default=None)
    ap.add_argument("--keep", action="store_true")
    ap.add_argument("--no-evidence", action="store_true")
    a = ap.parse_args()
    pid = a.pid
    tier = a.tier if a.tier in ("quick", "thorough") else "quick"
    seed = int(os.environ.get("VERIF_SEED", "0") or 0)
    if a.replay:
        return do_replay(pid, a.replay)
    t0 = time.time()
    queries = checks.queries_for(pid, tier, seed)
    if a.only:
        queries = [q for q in queries if a.only in q.name]
    if not queries:
        print("no queries for", pid); return 2
    workdir = os.path.join(vlib.VERIF, "build", "%s.%d" % (pid, os.getpid()))
    os.makedirs(workdir, exist_ok=True)
    known = [k for k in load_known() if k.get("property") == pid and k.get("status") == "known"]
    rc = 0
    try:
        with ThreadPoolExecutor(max_workers=vlib.NCPU) as ex:
            results = list(ex.map(lambda q: vlib.run_query(q, workdir), queries))
        violations = []; known_hits = {}; problems = []; others = []
        aux = {}
        for r in results:
            for k, v in getattr(r, "aux", {}).items():
                aux[k] = v and aux.get(k, True)
        for r in results:
            q = r.q
            line = "[%s] %-34s %-12s backend=%-8s props=%d ok=%d fail=%d unwind_fail=%d wall=%.1fs solver=%s rss=%sMB" % (
                pid, q.name, r.status, r.backend, r.nprops, r.nsuccess, len(r.failed), len(r.unwind_failed), r.wall,
                ("%.1fs" % r.solver_s) if r.solver_s is not None else "-", r.rss_mb)
            print(line, flush=True)
            if r.status != "done":
                problems.append("%s: %s: %s" % (q.name, r.status, (r.error or "")[:1500]))
                continue
            r.witness_missed = [w for w in r.witness_missed if w not in r.witness_reached]    # same label at two sites: one reachable site suffices
            if q.expect_witness and (r.witness_missed or not r.witness_reached):
                problems.append("%s: vacuity: witness not reachable: %s" % (q.name, r.witness_missed or "none declared"))
            for p in r.unwind_failed:
                if q.unwind_fail_is_violation:
                    r.failed.append(p)
                else:
                    problems.append("%s: loop bound exceeded (%s %s) - bound too small for current code" % (
                        q.name, p.get("property"), p.get("description")))
            if q.guard is not None and aux.get(q.guard[0]) is not None and aux.get(q.guard[0]) != q.guard[1]:
                if r.failed:
                    others.append("%s: %d condition(s) not counted: this variant applies only when %s is %s" % (q.name, len(r.failed), q.guard[0], q.guard[1]))
                continue
            for p in r.failed:
                kind, label = vlib.classify_prop(p)
                m = re.match(r"^(C\d\d(?:,C\d\d)*):", label)
                if kind == "assert" and m and pid not in m.group(1).split(","):
                    others.append("%s: %s" % (q.name, label))      # belongs to another property's check
                    continue
                if kind == "safety" and pid not in q.safety_for:
                    others.append("%s: %s" % (q.name, label))
                    continue
                key = vlib.prop_key(q.name, p)
                hit = None
                for k in known:
                    if k.get("key") == key or (k.get("key_re") and re.search(k["key_re"], key)):
                        hit = k
                if hit:
                    known_hits.setdefault(hit.get("key") or hit.get("key_re"), hit)
                else:
                    violations.append((r, p, key))
        # stage 2 for positional Hello oracles: a legal re-ordering of properties must not be reported
        violations = hello_fallback(pid, violations, others, workdir)
        for k in known_hits.values():
            print("KNOWN-FINDING: property=%s %s" % (pid, k["what"]))
        # counterexamples
        vio_records = []
        if violations:
            rdir_base = os.path.join(vlib.VERIF, "replays", pid)
            os.makedirs(rdir_base, exist_ok=True)
            seen_q = {}
            violations.sort(key=lambda v: (v[0].q.name, 0 if vlib.classify_prop(v[1])[0] == "assert" else 1))
            for (r, p, key) in violations:
                n = seen_q.get(r.q.name, 0)
                seen_q[r.q.name] = n + 1
                rec = {"property": pid, "query": r.q.name, "cbmc_property": p.get("property"), "description": p.get("description"),
                       "key": key, "source": p.get("sourceLocation", {}), "entry": r.q.entry, "src": r.q.src, "defines": r.q.defines,
                       "inputs": {}, "native_replay": "not_attempted"}
                path = os.path.join(rdir_base, "%s.%d.json" % (r.q.name, n))
                if n < 3:  # traces for the first few per query
                    try:
                        tr = vlib.get_trace(r.q, r.gb, os.path.join(workdir, r.q.name), r.backend, p.get("property"))
                    except Exception as e:
                        tr = None
                    if tr:
                        vals = vlib.extract_inputs(tr)
                        rec["inputs"] = vals
                        if r.q.replay:
                            cdir = os.path.join(rdir_base, "%s.%d.d" % (r.q.name, n))
                            os.makedirs(cdir, exist_ok=True)
                            with open(os.path.join(cdir, "replay_init.inc"), "w") as f:
                                for lhs, d in vals.items():
                                    lit = vlib.c_literal(d)
                                    if lit is not None and lhs != "in" and "$" not in lhs:
                                        f.write("%s = %s;\n" % (lhs, lit))
                            st, tail = vlib.native_replay(r.q, cdir, "replay_init.inc")
                            rec["native_replay"] = st; rec["native_output_tail"] = tail
                        else:
                            rec["native_replay"] = "solver_only (harness uses goto-instrument call replacement or checks a sanitizer-invisible class)"
                with open(path, "w") as f:
                    json.dump(rec, f, indent=1)
                vio_records.append(rec)
                if n < 4:
                    print("VIOLATION property=%s replay=%s  # %s: %s [%s] native=%s" % (
                        pid, path, r.q.name, p.get("description"), p.get("property"), rec["native_replay"]), flush=True)
                elif n == 4:
                    print("  (further failing conditions of %s are recorded under %s)" % (r.q.name, rdir_base), flush=True)
            rc = 1
        if others:
            print("[%s] note: %d failing condition(s) labelled for other properties were ignored here (their own checks report them), e.g. %s" % (pid, len(others), others[0][:160]))
        if problems:
            for pr in problems:
                print("PROBLEM: " + pr, flush=True)
            if rc == 0:
                rc = 2
        if not a.no_evidence and not a.only:
            samples, nvalid = witness_samples(pid, results, workdir, seed)
            write_evidence(pid, tier, seed, results, known_hits, vio_records, problems, time.time() - t0, samples, nvalid)
    finally:
        if not a.keep:
            shutil.rmtree(workdir, ignore_errors=True)
            try: os.rmdir(os.path.join(vlib.VERIF, "build"))
            except OSError: pass
    print("[%s] tier=%s queries=%d exit=%d wall=%.1fs" % (pid, tier, len(queries), rc, time.time() - t0))
    return rc


def hello_fallback(pid, violations, others, workdir):
    """If every counted failure of a Discover query comes from the positional part of the Hello oracle, run the
    order-agnostic decoder on one such query; if it passes, the order changed but the property holds."""
    byq = {}
    for v in violations:
        byq.setdefault(v[0].q.name, []).append(v)
    cand = [n for n, vs in byq.items() if getattr(vs[0][0].q, "hello_pair", None) is not None and
            all("(positional)" in (x[1].get("description") or "") for x in vs)]
    if not cand:
        return violations
    # only if no Discover query has a non-positional failure
    for n, vs in byq.items():
        if getattr(vs[0][0].q, "hello_pair", None) is not None and n not in cand:
            return violations
    q0 = byq[cand[0]][0][0].q
    h, s_ = q0.hello_pair
    fq = checks.q_discover_generic(h, s_, big_endian=q0.big_endian)
    print("[%s] positional Hello oracle failed in %d queries; running the order-agnostic decoder on %s ..." % (pid, len(cand), fq.name), flush=True)
    fr = vlib.run_query(fq, workdir)
    ok = fr.status == "done" and not fr.failed and not fr.unwind_failed and fr.witness_reached
    print("[%s] %-34s %-12s backend=%-8s props=%d ok=%d fail=%d wall=%.1fs" % (pid, fq.name, fr.status, fr.backend, fr.nprops, fr.nsuccess, len(fr.failed), fr.wall), flush=True)
    if ok:
        keep = [v for v in violations if v[0].q.name not in cand]
        others.append("positional Hello oracle: order of properties changed, order-agnostic decoder passes (%d conditions dismissed)" % (len(violations) - len(keep)))
        return keep
    return violations


def witness_samples(pid, results, workdir, seed, maxq=3):
    """Concrete cases: for up to maxq replayable queries take the solver's witness trace (a path that reaches the end of
    the harness), extract the inputs and run the same harness natively (gcc + ASan/UBSan) on them: every oracle
    assertion must hold there too. Validates encoding and oracles against the real build on concrete cases."""
    out = []; nvalid = 0
    cands = [r for r in results if r.status == "done" and r.q.replay and not r.failed and any("end" in w for w in r.witness_reached)]
    if cands:
        k = seed % len(cands)
        cands = cands[k:] + cands[:k]
    for r in cands[:maxq]:
        wp = None
        for p in r.props:
            if vlib.classify_prop(p)[0] == "witness" and "end" in p.get("description", "") and p.get("status") == "FAILURE":
                wp = p.get("property")
        if not wp:
            continue
        try:
            tr = vlib.get_trace(r.q, r.gb, os.path.join(workdir, r.q.name), r.backend.split("/")[0].split("+")[0], wp)
        except Exception:
            tr = None
        if not tr:
            continue
        vals = vlib.extract_inputs(tr)
        cdir = os.path.join(workdir, r.q.name, "wit")
        os.makedirs(cdir, exist_ok=True)
        with open(os.path.join(cdir, "replay_init.inc"), "w") as f:
            for lhs, d in vals.items():
                lit = vlib.c_literal(d)
                if lit is not None and lhs != "in" and "$" not in lhs:
                    f.write("%s = %s;\n" % (lhs, lit))
        st, tail = vlib.native_replay(r.q, cdir, "replay_init.inc")
        ok = (st == "not_reproduced")            # native run finished with every assertion holding
        if ok:
            nvalid += 1
        nz = {k_: v for k_, v in vals.items() if str(v) not in ("0", "0u", "0ul", "FALSE", "0l") and "$" not in k_}
        keys = sorted(nz)[:40]
        out.append({"query": r.q.name, "entry": r.q.entry, "witness_property": wp, "native_run": "all assertions hold" if ok else st,
                    "inputs_nonzero_excerpt": {k_: nz[k_] for k_ in keys}, "inputs_total": len(vals)})
    return out, nvalid


def write_evidence(pid, tier, seed, results, known_hits, vios, problems, wall, wsamples=None, nvalid=0):
    os.makedirs(os.path.join(vlib.VERIF, "evidence"), exist_ok=True)
    qs = []; fns = set(); nprops = 0; nsucc = 0; solver = 0.0; samples = []; labels = set()
    for r in results:
        q = r.q
        fns.update(f for f in r.functions)
        nprops += r.nprops; nsucc += r.nsuccess
        solver += (r.solver_s or 0.0)
        for p in r.props:
            kind, label = vlib.classify_prop(p)
            if p.get("status") == "SUCCESS" and kind in ("assert", "safety") and r.witness_reached:
                labels.add((q.name, p.get("property")))
        qs.append({"query": q.name, "harness": q.src, "entry": q.entry, "defines": q.defines, "what": q.desc,
                   "bounds": dict(q.bounds, unwind=q.unwind, unwindset=q.unwindset), "replaced_calls": q.replace,
                   "status": r.status, "backend": r.backend, "agreeing_backends": r.agreeing_backends, "properties": r.nprops, "discharged": r.nsuccess,
                   "failed": [p.get("description") for p in r.failed], "witnesses_reached": r.witness_reached,
                   "wall_s": round(r.wall, 2), "solver_s": r.solver_s, "symex_s": r.stats.get("symex_s"), "sat_variables": r.stats.get("sat_variables"), "sat_clauses": r.stats.get("sat_clauses"), "peak_rss_mb": r.rss_mb,
                   "big_endian": q.big_endian, "error": r.error})
    samples.extend(wsamples or [])
    for r in results[:6]:
        samples.append({"query": r.q.name, "entry": r.q.entry, "symbolic_inputs": r.q.bounds,
                        "example_obligations": [p.get("description") for p in r.props if vlib.classify_prop(p)[0] == "assert"][:6]})
    repo_fns = sorted(fns)
    ev = {
        "property_id": pid, "tier": tier, "seed": seed, "level": "model_checking",
        "coverage": {
            "evaluations": max(nprops, 1),
            "distinct_nontrivial": len(labels),
            "rule": "each evaluation is one verification condition (harness assertion or CBMC-generated safety check) decided by the SAT/SMT back end over all symbolic inputs within the stated bounds; distinct_nontrivial counts distinct (query, condition) pairs that came back UNSAT in a query whose reachability witness (assert(0) at harness end / inside the transmit oracle) was shown reachable",
            "samples": samples,
            "queries": qs,
            "traces_validated_against_impl": nvalid,
            "queries_total": len(results),
            "queries_conclusive": sum(1 for r in results if r.status == "done"),
            "functions_encoded": repo_fns,
            "solver_seconds": round(solver, 2),
            "known_findings_hit": [k["what"] for k in known_hits.values()],
            "problems": problems,
            "exhaustive": False,
            "explanation": "bounded symbolic model checking (CBMC 6.11) of the real translation units compiled by goto-cc from /repo on this run; UNSAT = holds for every value of the symbolic inputs within the bounds listed per query; nothing is claimed outside the bounds",
        },
        "assumptions": checks.assumptions_for(pid),
        "wall_s": round(wall, 2),
        "violations": len(vios),
    }
    with open(os.path.join(vlib.VERIF, "evidence", pid + ".json"), "w") as f:
        json.dump(ev, f, indent=1)


def do_replay(pid, path):
    rec = json.load(open(path))
    qs = checks.queries_for(pid, "thorough", 0) + checks.queries_for(pid, "quick", 0)
    q = None
    for c in qs:
        if c.name == rec["query"]:
            q = c; break
    if q is None:
        print("query %s not found" % rec["query"]); return 2
    cdir = os.path.join(vlib.VERIF, "build", "replay.%d" % os.getpid())
    os.makedirs(cdir, exist_ok=True)
    try:
        with open(os.path.join(cdir, "replay_init.inc"), "w") as f:
            for lhs, d in rec["inputs"].items():
                lit = vlib.c_literal(d)
                if lit is not None and lhs != "in" and "$" not in lhs:
                    f.write("%s = %s;\n" % (lhs, lit))
        st, tail = vlib.native_replay(q, cdir, "replay_init.inc")
        print("replay of %s on current tree: %s" % (path, st)); print(tail)
        return 1 if st == "reproduced" else 0
    finally:
        shutil.rmtree(cdir, ignore_errors=True)


if __name__ == "__main__":
    sys.exit(main())
