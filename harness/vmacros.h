/* assertion / assumption macros, dual-mode (CBMC / native replay) */
#ifndef VMACROS_H
#define VMACROS_H
#include <stddef.h>
#include <stdint.h>
#include <stdbool.h>
#ifdef VERIF_CBMC
#define V_ASSUME(c) __CPROVER_assume(c)
#define V_ASSERT(c, label) __CPROVER_assert((c), label)
/* reachability witness: expected to FAIL (i.e. be reachable) */
#ifdef V_NO_WITNESS
#define V_WITNESS(label) do { } while (0)
#else
#define V_WITNESS(label) __CPROVER_assert(0, "WITNESS:" label)
#endif
void *malloc(size_t);
void free(void *);
void *memset(void *, int, size_t);
void *memcpy(void *, const void *, size_t);
int memcmp(const void *, const void *, size_t);
#else
#include <stdio.h>
#include <stdlib.h>
#include <string.h>
#define V_ASSUME(c) do { if (!(c)) { fprintf(stderr, "REPLAY: assumption not met: %s\n", #c); exit(77); } } while (0)
#define V_ASSERT(c, label) do { if (!(c)) { fprintf(stderr, "REPLAY-ASSERT-FAILED: %s\n", label); fflush(stderr); exit(66); } } while (0)
#define V_WITNESS(label) do { } while (0)
#endif

#endif
