/* Frame-class harnesses over the real parseFrame (lltdBlock.c) and everything below it.
 * One entry point per frame class; the driver asserts the class split with
 * goto-instrument --replace-calls <other handler>:unreachable_handler. */
#include "blk_common.h"

/* ---- per-run oracle state -------------------------------------------------- */
static uint8_t *RX;                 /* the receive buffer handed to parseFrame */
static lltd_iface_state *ST;
static int g_class;                 /* which oracle on_send applies */
enum { CL_NONE = 0, CL_QUERY, CL_HELLO, CL_EMIT, CL_QLTLV, CL_ANY, CL_PAIR, CL_REL, CL_IL, CL_LONG };

static uint8_t g_rec_desc[20]; static unsigned g_rec_cnt; static bool g_rec_valid;
static size_t g_last_len;
static void *g_expect_ctx;         /* 0 = interface A */
static unsigned ql_cnt; static size_t ql_len; static unsigned ql_sends;
static bool g_two_ifaces;          /* both interfaces transmit in this harness */

static void oracle_query(const vcfg *c, const uint8_t *f, size_t n);
static void oracle_hello(const vcfg *c, const uint8_t *f, size_t n);
static void oracle_emit(const vcfg *c, const uint8_t *f, size_t n);
static void oracle_qltlv(const vcfg *c, const uint8_t *f, size_t n);
static void oracle_any(const vcfg *c, const uint8_t *f, size_t n);
static void oracle_pair(const vcfg *c, const uint8_t *f, size_t n);
static void oracle_rel(const vcfg *c, const uint8_t *f, size_t n);
static void oracle_il(void *ctx, const uint8_t *f, size_t n);

static void on_send(void *ctx, const uint8_t *f, size_t n) {
    const vcfg *c = (const vcfg *)ctx;
    if (g_class == CL_IL) { oracle_il(ctx, f, n); V_WITNESS("a frame was transmitted"); return; }
    if (g_class == CL_LONG) { ql_sends++; ql_len = n; if (n >= 34) { check_tx_common(c, f, n); ql_cnt = be16(f + 32); } V_WITNESS("a frame was transmitted"); return; }
    V_ASSERT(ctx == g_expect_ctx || (g_expect_ctx == 0 && ctx == (void *)&g_cfgA) || (g_two_ifaces && ctx == (void *)&g_cfgB), "C02,C17: frames leave on the interface the request arrived on");
    g_last_len = n;
    if (n >= 32) {
        check_tx_common(c, f, n);
        switch (g_class) {
            case CL_QUERY: oracle_query(c, f, n); break;
            case CL_HELLO: oracle_hello(c, f, n); break;
            case CL_EMIT: oracle_emit(c, f, n); break;
            case CL_QLTLV: oracle_qltlv(c, f, n); break;
            case CL_ANY: oracle_any(c, f, n); break;
            case CL_PAIR: oracle_pair(c, f, n); break;
            case CL_REL: oracle_rel(c, f, n); break;
            default: V_ASSERT(0, "C02: no frame is sent in reaction to this class of frame");
        }
    } else {
        V_ASSERT(0, "C02: transmitted frame carries a full LLTD base header");
    }
    V_WITNESS("a frame was transmitted");
}

static unsigned g_sleep_total; static uint32_t g_last_sleep; static unsigned g_sleep_at_event[4];
static void on_sleep(uint32_t ms) { g_last_sleep = ms; g_sleep_total += ms; }

static void common_setup(int faults) {
    load_inputs();
    setup_platform(faults);
    ST = build_state(&g_cfgA, &in.st);
    RX = make_frame(in.frame, g_cfgA.mtu);
}

static bool is_disc_tos(uint8_t t) { return t == 0 || t == 1; }

/* does the frame's real source match the active mapper (C05 acceptance rule) */
static bool from_mapper_or_none(void) {
    return !in.st.known || mac6_eq(in.frame + F_RSRC, in.st.mreal);
}

/* ============================================================ Query class (C07, C02, C19) */
#ifndef SEECAP
#define SEECAP 1024
#endif

static void oracle_query(const vcfg *c, const uint8_t *f, size_t n) {
    V_ASSERT(g_nsend == 1, "C02: at most one frame per Query");
    V_ASSERT(f[F_OP] == 7, "C02,C07: a Query is answered by a QueryResp");
    V_ASSERT(f[F_TOS] == 0, "C02: QueryResp belongs to topology discovery");
    V_ASSERT(mac6_eq(f + F_ESRC, c->mac), "C02: QueryResp sourced from own address");
    bool bridged = !mac6_eq(in.frame + F_RSRC, in.frame + F_ESRC);
    if (bridged) {
        V_ASSERT(mac6_is_bcast(f + F_EDST) && mac6_is_bcast(f + F_RDST), "C07: QueryResp broadcast when the mapper is behind a bridge");
    } else {
        V_ASSERT(mac6_eq(f + F_EDST, in.frame + F_RSRC) && mac6_eq(f + F_RDST, in.frame + F_RSRC), "C07: QueryResp goes to the mapper");
    }
    V_ASSERT(f[F_SEQ] == in.frame[F_SEQ] && f[F_SEQ + 1] == in.frame[F_SEQ + 1], "C07: QueryResp carries the Query's sequence number");
    V_ASSERT(n >= 34, "C02: QueryResp has its count field");
    unsigned v = be16(f + 32), cnt = v & 0x7FFF; bool more = (v & 0x8000) != 0;
    size_t cap = (c->mtu - 34) / 20;
    unsigned pre_n = in.st.n;
    unsigned exp = pre_n > cap ? (unsigned)cap : pre_n;
    V_ASSERT(cnt == exp, "C07: QueryResp lists as many observations as were recorded and fit");
    V_ASSERT(more == (pre_n > cap), "C07: 'more' flag set iff observations remain");
    V_ASSERT(n == 34 + 20 * (size_t)cnt, "C02: QueryResp length is 34 + 20 per descriptor");
    g_rec_cnt = cnt; g_rec_valid = false;
    if (in.j < cnt) {
        const uint8_t *d = f + 34 + 20 * (size_t)in.j;
        /* none invented: descriptor j equals a recorded observation */
        bool found = false;
        for (unsigned i = 0; i < K; i++) {
            if (i < pre_n) {
                const struct node_in *p = &in.st.node[i];
                if (d[0] == 0 && d[1] == p->type && mac6_eq(d + 2, p->rs) && mac6_eq(d + 8, p->es) && mac6_eq(d + 14, p->ed)) found = true;
            }
        }
        V_ASSERT(found, "C07: every listed observation was recorded (real source, Ethernet source, Ethernet destination as received)");
        memcpy(g_rec_desc, d, 20);
        g_rec_valid = true;
        if (in.j2 < cnt && in.j2 != in.j) {
            const uint8_t *e = f + 34 + 20 * (size_t)in.j2;
            V_ASSERT(!(mac6_eq(d + 2, e + 2) && mac6_eq(d + 8, e + 8)), "C07: no observation listed twice");
        }
    }
}

void h_query(void) {
    common_setup(0);
    g_class = CL_QUERY;
    V_ASSUME(in.frame[F_TOS] == 0 && in.frame[F_OP] == opcode_query);
    long live0 = g_live_blocks;
    size_t cap = (g_cfgA.mtu - 34) / 20;
    unsigned pre_n = in.st.n;
    parseFrame(RX, &g_cfgA);
    V_ASSERT(g_nsend == 1, "C02,C07: exactly one QueryResp per Query");
    unsigned exp = pre_n > cap ? (unsigned)cap : pre_n;
    unsigned rest = pre_n - exp;
    struct snap sn; snapshot_list(ST, &sn);
    assert_inv_snap(ST, &sn);
    V_ASSERT(sn.n == rest, "C07,C10: reported observations are dropped, unreported ones are kept for later Queries");
    for (unsigned i = 0; i < KP; i++) {
        if (i < sn.n) {
            bool found = false;
            for (unsigned a = 0; a < K; a++) {
                if (a < pre_n) {
                    const struct node_in *q = &in.st.node[a];
                    if (sn.node[i].type == q->type && mac6_eq(sn.node[i].rs, q->rs) && mac6_eq(sn.node[i].es, q->es) && mac6_eq(sn.node[i].ed, q->ed)) found = true;
                }
            }
            V_ASSERT(found, "C07: observations kept for the next Query are exactly recorded ones");
            if (g_rec_valid)
                V_ASSERT(!(mac6_eq(sn.node[i].rs, g_rec_desc + 2) && mac6_eq(sn.node[i].es, g_rec_desc + 8)), "C07: an observation already reported is not kept (reported exactly once)");
        }
    }
    V_ASSERT(sn.n <= pre_n && g_live_blocks == live0 - ((long)pre_n - (long)sn.n), "C19: after a Query exactly the observations still recorded stay allocated; the QueryResp buffer and retired observations are released");
    /* C05's domain: commands come from the active mapper or while none is active; a stranger's Query is left unconstrained */
    if (!in.st.known) V_ASSERT(ST->mapper_known == 1 && mac6_eq(ST->mapper_real.a, in.frame + F_RSRC), "C03,C05: a Query that opens the session makes its real source the mapper (later Discovers from it are the accepted ones)");
    else if (mac6_eq(in.frame + F_RSRC, in.st.mreal)) V_ASSERT(ST->mapper_known == 1 && mac6_eq(ST->mapper_real.a, in.st.mreal), "C05: a Query from the active mapper keeps it the mapper");
    V_ASSERT(ST->mapper_seq == be16(in.frame + F_SEQ), "C07: sequence number of the Query remembered");
    assert_mapp_step(ST);
    V_WITNESS("h_query end");
}

/* C07: long observation record (counts that exceed 8-bit arithmetic, jumbo MTU): NLONG recorded observations of
 * arbitrary content, one Query: all NLONG are listed (they fit: capacity 459 at MTU 9216) and all are retired. */
#ifndef NLONG
#define NLONG 300
#endif
void h_query_long(void) {
    load_inputs();
    setup_platform(0);
    V_ASSUME(in.st.known <= 1);
    lltd_iface_state *st = (lltd_iface_state *)v_alloc(sizeof(*st));
    memset(st, 0, sizeof(*st));
    st->iface_ctx = &g_cfgA; st->next = 0; g_iface_states = st;
    probe_t *head = 0;
    for (unsigned i = 0; i < NLONG; i++) {
        probe_t *p = (probe_t *)v_alloc(sizeof(*p));     /* content arbitrary (fresh memory) */
        p->nextProbe = head; head = p;
    }
    st->see_list = head; st->see_list_count = NLONG;
    ST = st;
    RX = make_frame(in.frame, g_cfgA.mtu);
    g_class = CL_LONG;
    V_ASSUME(in.frame[F_TOS] == 0 && in.frame[F_OP] == opcode_query);
    long live0 = g_live_blocks;
    parseFrame(RX, &g_cfgA);
    V_ASSERT(ql_sends == 1, "C07: exactly one QueryResp per Query");
    size_t cap = (g_cfgA.mtu - 34) / 20;
    unsigned exp = NLONG > cap ? (unsigned)cap : NLONG;
    V_ASSERT(ql_cnt == (exp | (NLONG > cap ? 0x8000u : 0u)), "C07: count field lists every recorded observation that fits, 'more' iff some remain (long record)");
    V_ASSERT(ql_len == 34 + 20 * (size_t)exp, "C02: QueryResp length is 34 + 20 per descriptor (long record)");
    V_ASSERT(ST->see_list_count == NLONG - exp, "C07: every reported observation is retired, none is listed again by the next Query (long record)");
    unsigned n = 0; probe_t *p = ST->see_list;
    for (unsigned i = 0; i < NLONG + 1; i++) { if (p) { n++; p = (probe_t *)p->nextProbe; } }
    V_ASSERT(n == NLONG - exp && p == 0, "C07: the record holds exactly the unreported observations afterwards (long record)");
    V_ASSERT(g_live_blocks == live0 - (long)exp, "C19: reported observations freed (long record)");
    V_WITNESS("h_query_long end");
}

/* ============================================================ Probe/Train class (C07, C19) */
static probe_t *list_find(lltd_iface_state *st, const uint8_t *es, const uint8_t *rs, unsigned kp) {
    probe_t *p = st->see_list;
    for (unsigned i = 0; i <= kp; i++) {
        if (p) {
            if (mac6_eq(p->sourceAddr.a, es) && mac6_eq(p->realSourceAddr.a, rs)) return p;
            p = (probe_t *)p->nextProbe;
        }
    }
    return 0;
}

void h_probe(void) {
    common_setup(0);
    g_class = CL_NONE;
    V_ASSUME(in.frame[F_TOS] == 0 && (in.frame[F_OP] == opcode_probe || in.frame[F_OP] == opcode_train));
    long live0 = g_live_blocks;
    unsigned pre_n = in.st.n;
    bool for_us = mac6_eq(in.frame + F_RDST, g_cfgA.mac);
    bool dup = false;
    for (unsigned i = 0; i < K; i++)
        if (i < pre_n && mac6_eq(in.st.node[i].es, in.frame + F_ESRC) && mac6_eq(in.st.node[i].rs, in.frame + F_RSRC)) dup = true;
    parseFrame(RX, &g_cfgA);
    V_ASSERT(g_nsend == 0, "C02: nothing is transmitted in reaction to a Probe or Train");
    struct snap sn; snapshot_list(ST, &sn);
    assert_inv_snap(ST, &sn);
    bool grew = for_us && !dup && pre_n < SEECAP;
    V_ASSERT(sn.n == pre_n + (grew ? 1u : 0u), "C07: a distinct Probe/Train addressed to this station is recorded once; others are not recorded");
    for (unsigned a = 0; a < K; a++)
        if (a < pre_n) V_ASSERT(snap_has(&sn, &in.st.node[a]), "C07: earlier observations survive a later Probe/Train unchanged");
    if (grew) {
        struct node_in q;
        q.type = (in.frame[F_OP] == opcode_probe) ? 1 : 0;
        mac6_set(q.rs, in.frame + F_RSRC); mac6_set(q.es, in.frame + F_ESRC); mac6_set(q.ed, in.frame + F_EDST);
        V_ASSERT(snap_has(&sn, &q), "C07: new observation recorded with real source, Ethernet source, Ethernet destination and kind as received");
    }
    V_ASSERT(sn.n <= pre_n + 1u && g_live_blocks == live0 + (long)sn.n - (long)pre_n, "C19: after a Probe/Train exactly the recorded observations stay allocated (at most one more than before), every other buffer is released");
    V_ASSERT(ST->mapper_known == in.st.known && mac6_eq(ST->mapper_real.a, in.st.mreal), "C05: Probe/Train never changes the mapper");
    V_WITNESS("h_probe end");
}

/* C19: existence of a cap, independent of its name or value: with the observation counter at its
 * maximum (a state standing for "arbitrarily many observations recorded") one more distinct
 * Probe/Train must not be retained. */
void h_probe_cap(void) {
    common_setup(0);
    g_class = CL_NONE;
    V_ASSUME(in.frame[F_TOS] == 0 && (in.frame[F_OP] == opcode_probe || in.frame[F_OP] == opcode_train));
    V_ASSUME(mac6_eq(in.frame + F_RDST, g_cfgA.mac));
    for (unsigned i = 0; i < K; i++)
        if (i < in.st.n) V_ASSUME(!(mac6_eq(in.st.node[i].es, in.frame + F_ESRC) && mac6_eq(in.st.node[i].rs, in.frame + F_RSRC)));
    ST->see_list_count = 0xFFFFFFFFu;
    long live0 = g_live_blocks;
    parseFrame(RX, &g_cfgA);
    struct snap sn; snapshot_list(ST, &sn);
    V_ASSERT(sn.n == in.st.n && !sn.overflow, "C19: the observation list stops growing at a fixed cap (memory retained does not grow with the length of the history)");
    V_ASSERT(g_live_blocks == live0, "C19: an observation beyond the cap is not retained");
    V_WITNESS("h_probe_cap end");
}

/* C07: the cap must leave room for the property's range (k up to 300 distinct observations between Queries):
 * with 299 observations counted, one more distinct Probe/Train addressed to this station is still recorded. */
void h_probe_room(void) {
    common_setup(0);
    g_class = CL_NONE;
    V_ASSUME(in.frame[F_TOS] == 0 && (in.frame[F_OP] == opcode_probe || in.frame[F_OP] == opcode_train));
    V_ASSUME(mac6_eq(in.frame + F_RDST, g_cfgA.mac));
    for (unsigned i = 0; i < K; i++)
        if (i < in.st.n) V_ASSUME(!(mac6_eq(in.st.node[i].es, in.frame + F_ESRC) && mac6_eq(in.st.node[i].rs, in.frame + F_RSRC)));
    ST->see_list_count = 299;
    parseFrame(RX, &g_cfgA);
    struct snap sn; snapshot_list(ST, &sn);
    V_ASSERT(sn.n == in.st.n + 1u && ST->see_list_count == 300, "C07: up to 300 distinct observations between Queries are all recorded (the memory cap does not cut into the property's range)");
    V_WITNESS("h_probe_room end");
}

/* ============================================================ Reset class (C05, C07, C09, C19) */
void h_reset(void) {
    common_setup(0);
    g_class = CL_NONE;
    V_ASSUME(is_disc_tos(in.frame[F_TOS]) && in.frame[F_OP] == opcode_reset);
    parseFrame(RX, &g_cfgA);
    V_ASSERT(g_nsend == 0, "C02: nothing is transmitted in reaction to a Reset");
    V_ASSERT(ST->mapper_known == 0, "C05: a Reset of either discovery service releases the mapper");
    struct snap sn; snapshot_list(ST, &sn);
    assert_inv_snap(ST, &sn);
    if (in.frame[F_TOS] == 0) {
        V_ASSERT(ST->see_list == 0 && ST->see_list_count == 0, "C07,C09: a Reset discards the observation record");
        V_ASSERT(ST->small_icon == 0 && ST->small_icon_size == 0, "C09: a Reset drops the cached icon");
        /* sequence / generation numbers need not be zeroed: whether a stale value can influence anything sent later is decided by the
         * two-world queries. This auxiliary condition only tells the driver which relation those queries may start from. */
        V_ASSERT(ST->mapper_seq == 0 && ST->mapper_gen_topology == 0 && ST->mapper_gen_quick == 0, "AUX:reset_zeroes_seq_gen");
        V_ASSERT(g_live_blocks == 2 && g_live_bytes == sizeof(lltd_iface_state) + g_cfgA.mtu, "C19: after a Reset only the constant per-interface record remains allocated");
    }
    V_WITNESS("h_reset end");
}

/* ============================================================ everything else (C02, C05) */
static bool handled_pair(uint8_t tos, uint8_t op) {
    if (tos == 0) return op == 0 || op == 2 || op == 3 || op == 4 || op == 6 || op == 8 || op == 0x0B;
    if (tos == 1) return op == 0 || op == 8 || op == 0x0B;
    return false;
}

void h_other(void) {
    common_setup(0);
    g_class = CL_NONE;
    V_ASSUME(!handled_pair(in.frame[F_TOS], in.frame[F_OP]));
    long live0 = g_live_blocks; unsigned long bytes0 = g_live_bytes;
    lltd_iface_state before = *ST;
    parseFrame(RX, &g_cfgA);
    V_ASSERT(g_nsend == 0, "C02: frames are sent only in reaction to Discover, Emit, Query or QueryLargeTlv of the discovery services");
    V_ASSERT(ST->mapper_known == before.mapper_known && mac6_eq(ST->mapper_real.a, before.mapper_real.a) && mac6_eq(ST->mapper_apparent.a, before.mapper_apparent.a),
             "C05: frames of other services / non-request opcodes never establish, change or release the mapper");
    V_ASSERT(ST->mapper_seq == before.mapper_seq && ST->mapper_gen_topology == before.mapper_gen_topology && ST->mapper_gen_quick == before.mapper_gen_quick,
             "C05,C09: unrelated frames leave sequence and generation numbers alone");
    V_ASSERT(ST->see_list == before.see_list && ST->see_list_count == before.see_list_count && ST->small_icon == before.small_icon && ST->small_icon_size == before.small_icon_size,
             "C07,C19: unrelated frames leave observations and cache alone");
    V_ASSERT(g_live_blocks == live0 && g_live_bytes == bytes0, "C19: nothing allocated or leaked by an unrelated frame");
    V_WITNESS("h_other end");
}

/* ============================================================ C05: (ToS, opcode) sweep with recording stubs */
static unsigned r_hello, r_emit, r_probe, r_query, r_qltlv;
void rec_answerHello(void *f, lltd_iface_state *st, void *ctx) { (void)f; (void)st; (void)ctx; r_hello++; }
void rec_parseEmit(void *f, lltd_iface_state *st, void *ctx) { (void)f; (void)st; (void)ctx; r_emit++; }
void rec_parseProbe(void *f, lltd_iface_state *st, void *ctx) { (void)f; (void)st; (void)ctx; r_probe++; }
void rec_parseQuery(void *f, lltd_iface_state *st, void *ctx) { (void)f; (void)st; (void)ctx; r_query++; }
void rec_parseQueryLargeTlv(void *f, lltd_iface_state *st, void *ctx) { (void)f; (void)st; (void)ctx; r_qltlv++; }

void h_sweep(void) {
    common_setup(0);
    g_class = CL_NONE;
    uint8_t tos = in.frame[F_TOS], op = in.frame[F_OP];
    lltd_iface_state before = *ST;
    bool match = from_mapper_or_none();
    parseFrame(RX, &g_cfgA);
    unsigned total = r_hello + r_emit + r_probe + r_query + r_qltlv;
    V_ASSERT(total <= 1, "C05: at most one handler per frame");
    V_ASSERT(g_nsend == 0, "C02: dispatch itself transmits nothing");
    bool id_same = ST->mapper_known == before.mapper_known && (!before.mapper_known || mac6_eq(ST->mapper_real.a, before.mapper_real.a));
    if (!is_disc_tos(tos)) {
        V_ASSERT(total == 0, "C05: frames of other services reach no handler");
        V_ASSERT(id_same, "C05: frames of other services never establish, change or release the mapper");
        V_ASSERT(ST->mapper_gen_topology == before.mapper_gen_topology && ST->mapper_gen_quick == before.mapper_gen_quick && ST->mapper_seq == before.mapper_seq,
                 "C05,C09: frames of other services leave generation and sequence numbers alone");
    } else if (op == opcode_discover) {
        if (!before.mapper_known) {
            V_ASSERT(r_hello == 1, "C05: with no active mapper the next Discover from any station is accepted");
            V_ASSERT(ST->mapper_known == 1 && mac6_eq(ST->mapper_real.a, in.frame + F_RSRC), "C05: the accepted Discover's sender becomes the active mapper");
        } else if (match) {
            V_ASSERT(r_hello == 1, "C05: every Discover from the active mapper is answered");
            V_ASSERT(id_same, "C05: a Discover from the active mapper leaves the mapper unchanged");
        } else {
            V_ASSERT(total == 0, "C05: a Discover from any other station gets no reply while a mapper is active");
            V_ASSERT(id_same, "C05: a foreign Discover does not change the mapper");
        }
    } else if (op == opcode_reset) {
        V_ASSERT(total == 0 && ST->mapper_known == 0, "C05: a Reset of either discovery service releases the mapper");
    } else {
        /* which handler */
        if (tos == 0 && op == opcode_emit) V_ASSERT(r_emit == 1, "C05: Emit dispatched");
        else if (tos == 0 && (op == opcode_probe || op == opcode_train)) V_ASSERT(r_probe == 1, "C05: Probe/Train dispatched");
        else if (tos == 0 && op == opcode_query) V_ASSERT(r_query == 1, "C05: Query dispatched");
        else if (op == opcode_queryLargeTlv) V_ASSERT(r_qltlv == 1, "C05: QueryLargeTlv dispatched");
        else V_ASSERT(total == 0, "C05: non-request opcodes reach no handler");
        V_ASSERT(id_same, "C05: Hello/Probe/Train/other opcodes leave the mapper unchanged at dispatch");
    }
    V_WITNESS("h_sweep end");
}

/* ============================================================ C01: all handlers live, safety checks only */
static void oracle_any(const vcfg *c, const uint8_t *f, size_t n) { (void)c; (void)f; (void)n; }

void h_safety(void) {
#ifdef FAULTS
    common_setup(1);          /* symbolic fault schedule: i-th malloc / send fails iff flagged; getters fail under their own flags */
#else
    common_setup(0);
#endif
    g_class = CL_ANY;
#ifdef FAULT_MTU
    g_cfgA.mtu_fail = FAULT_MTU;      /* concrete: transmit buffers keep a constant size per query */
#endif
#ifdef HOSTLEN
    g_plat.hostname_len = HOSTLEN; g_cfgA.ssid_len = SSIDLEN;
#endif
#ifdef SAFETY_CLASS
    /* class selector: 0 discover, 2 emit, 3 probe/train, 6 query, 8 reset, 11 qltlv, 255 everything else */
    {
        uint8_t t = in.frame[F_TOS], o = in.frame[F_OP];
        if (SAFETY_CLASS == 0) V_ASSUME(is_disc_tos(t) && o == 0);
        else if (SAFETY_CLASS == 2) V_ASSUME(t == 0 && o == 2);
        else if (SAFETY_CLASS == 3) V_ASSUME(t == 0 && (o == 3 || o == 4));
        else if (SAFETY_CLASS == 6) V_ASSUME(t == 0 && o == 6);
        else if (SAFETY_CLASS == 8) V_ASSUME(is_disc_tos(t) && o == 8);
        else if (SAFETY_CLASS == 11) V_ASSUME(is_disc_tos(t) && o == 0x0B);
        else V_ASSUME(!handled_pair(t, o));
    }
#endif
    parseFrame(RX, &g_cfgA);
    struct snap sn; snapshot_list(ST, &sn);
    assert_inv_snap(ST, &sn);
    /* allocation ledger: receive buffer + record + one block per observation + cached icon; everything else released */
    V_ASSERT(g_live_blocks == 2 + (long)sn.n + (ST->small_icon ? 1 : 0), "C18,C19: every buffer obtained while handling the frame is released unless it is part of the retained state (also when the platform fails)");
    V_ASSERT(sn.n <= in.st.n + 1, "C19: at most one observation retained per frame");
#ifdef SAFETY_CLASS
    {
        unsigned bound = (SAFETY_CLASS == 0 || SAFETY_CLASS == 6 || SAFETY_CLASS == 11) ? 1u : (SAFETY_CLASS == 2 ? (unsigned)EMIT_MAXD(g_cfgA.mtu) + 1u : 0u);
#ifdef FAULTS
        if (SAFETY_CLASS == 2 && g_cfgA.mtu_fail) bound = 0;
#endif
        V_ASSERT(g_nsend <= bound, "C02,C18: number of frames per request within the class bound (also under faults)");
    }
#endif
    V_WITNESS("h_safety end");
}

#include "blk_hello.h"
#include "blk_emit.h"
#include "blk_qltlv.h"
#include "blk_pair.h"
#include "blk_thread.h"
#ifdef REL_CLASS
#include "blk_rel.h"
#else
static void oracle_rel(const vcfg *c, const uint8_t *f, size_t n) { (void)c; (void)f; (void)n; }
#endif

MAIN_NATIVE
