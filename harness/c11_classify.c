/* C11 — session-event classification of a received frame.
 * Real code: derive_session_event (lltdAutomata.c, built WITHOUT LLTD_TESTING),
 * session_table_find. Reference is computed from raw bytes: station i = bytes 36+6i .. 41+6i. */
#include "vport.c"
#include "v_checks_on.h"
#include "lltdAutomata.c"
#include "v_checks_off.h"

static void on_send(void *c, const uint8_t *f, size_t n) { (void)c; (void)f; (void)n; }
static void on_sleep(uint32_t ms) { (void)ms; }

#ifndef MTU
#define MTU 576
#endif
#define NMAXST ((MTU - 36) / 6)
#define N SESSION_TABLE_MAX_ENTRIES

struct inputs {
    uint8_t frame[MTU];
    uint8_t own[6];
    session_table tab;
    uint16_t pos;          /* witness position of own address / universally quantified index */
    uint8_t have_tab;
};
#ifdef VERIF_CBMC
struct inputs nondet_inputs(void);
#endif
static struct inputs in;
static void load_inputs(void) {
#ifdef VERIF_CBMC
    in = nondet_inputs();
#else
#include "replay_init.inc"
#endif
}


/* representation invariant of a session table as far as consumers outside the table code rely on it */
static bool tab_consistent(const session_table *t) {
    unsigned nv = 0; bool allc = true;
    for (int i = 0; i < SESSION_TABLE_MAX_ENTRIES; i++) if (t->entries[i].valid) { nv++; if (!t->entries[i].complete) allc = false; }
    return t->count == nv && t->all_complete == allc;
}

static bool st_is_own(const uint8_t *f, unsigned i) {
    const uint8_t *s = f + 36 + 6 * i;
    return s[0] == in.own[0] && s[1] == in.own[1] && s[2] == in.own[2] && s[3] == in.own[3] && s[4] == in.own[4] && s[5] == in.own[5];
}

void h_classify(void) {
    load_inputs();
    uint8_t *f = (uint8_t *)v_alloc(MTU);
    memcpy(f, in.frame, MTU);
    session_table *T = 0;
    if (in.have_tab) { T = session_table_create(); V_ASSUME(T != 0); *T = in.tab; V_ASSUME(tab_consistent(T)); }

    uint8_t opcode = f[17];
    unsigned count = ((unsigned)f[34] << 8) | f[35];
    uint16_t gen = (uint16_t)(((unsigned)f[32] << 8) | f[33]);
    uint16_t seq = (uint16_t)(((unsigned)f[30] << 8) | f[31]);
    /* the list must be held by the frame (the excluded region is the known finding of C01) */
    if (opcode == 0) V_ASSUME(count <= NMAXST);

    /* reference: known session with same mapper+generation? (unique by the table invariant) */
    int matches = 0; bool chg = false;
    if (in.have_tab) {
        for (int i = 0; i < N; i++) {
            const session_entry *e = &in.tab.entries[i];
            if (e->valid && e->generation == gen &&
                e->mapper_mac[0] == f[24] && e->mapper_mac[1] == f[25] && e->mapper_mac[2] == f[26] &&
                e->mapper_mac[3] == f[27] && e->mapper_mac[4] == f[28] && e->mapper_mac[5] == f[29]) {
                matches++;
                if (e->seq_number != seq) chg = true;
            }
        }
    }
    V_ASSUME(matches <= 1);

    /* reference: is own address among the first `count` stations? */
    bool present = false;
    if (opcode == 0) {
        for (unsigned i = 0; i < NMAXST; i++) {
            if (i < count && st_is_own(f, i)) present = true;
        }
    }

    int r = derive_session_event(f, T, in.own);

    if (opcode == opcode_discover) {
        if (count >= 1) {
            if (present) V_ASSERT(r == (chg ? sess_discover_acking_chgd_xid : sess_discover_acking), "C11: Discover listing this station is acknowledging (changed-transaction variant iff known under another sequence number)");
            else V_ASSERT(r == (chg ? sess_discover_noack_chgd_xid : sess_discover_noack), "C11: Discover with a non-empty list not containing this station is not acknowledging (changed-transaction variant iff known under another sequence number)");
        } else {
            V_ASSERT(r == sess_discover_acking || r == sess_discover_acking_chgd_xid || r == sess_discover_noack || r == sess_discover_noack_chgd_xid || r == sess_discover_conflicting,
                     "C11: Discover with empty list yields some Discover event");
        }
    } else if (opcode == opcode_reset) {
        bool bc = f[18] == 0xFF && f[19] == 0xFF && f[20] == 0xFF && f[21] == 0xFF && f[22] == 0xFF && f[23] == 0xFF;
        V_ASSERT(r == (bc ? sess_topo_reset : sess_reset), "C11: Reset is topology-wide iff its real destination is broadcast");
    } else if (opcode == opcode_hello) {
        V_ASSERT(r == sess_hello, "C11: Hello classified as hello");
    } else {
        V_ASSERT(r == -1, "C11: every other frame yields no session event");
    }
    V_ASSERT(derive_session_event(0, T, in.own) == -1, "C11: missing frame yields no session event");
    V_WITNESS("h_classify end");
}

/* position sweep: own address exactly at position pos (any pos < count) is found */
void h_position(void) {
    load_inputs();
    uint8_t *f = (uint8_t *)v_alloc(MTU);
    memcpy(f, in.frame, MTU);
    unsigned count = ((unsigned)f[34] << 8) | f[35];
    V_ASSUME(f[17] == opcode_discover);
    V_ASSUME(count >= 1 && count <= NMAXST);
    V_ASSUME(in.pos < count);
    V_ASSUME(st_is_own(f, in.pos));
    int r = derive_session_event(f, 0, in.own);
    V_ASSERT(r == sess_discover_acking, "C11: own address recognised wherever it stands in the station list");
    V_WITNESS("h_position end");
}

#ifndef VERIF_CBMC
int main(void) { HARNESS(); return 0; }
#endif
