/* C16 — session table consistency: one operation from an arbitrary table that
 * satisfies the representation invariant R, post-state compared with a
 * declarative specification, R re-established. One step from every R-state
 * covers operation sequences of any length.
 * Real code: session_table_* and the expiry sweep of automata_tick. */
#include "vport.c"
#include "v_checks_on.h"
#include "lltdAutomata.c"
#include "v_checks_off.h"

static void on_send(void *c, const uint8_t *f, size_t n) { (void)c; (void)f; (void)n; }
static void on_sleep(uint32_t ms) { (void)ms; }

#define N SESSION_TABLE_MAX_ENTRIES

struct inputs {
    session_table tab;
    uint8_t mac[6];
    uint16_t gen, seq;
    uint64_t now_s, now_ms;
    uint8_t j;        /* universally quantified slot index */
    uint8_t k;        /* slot picked for "mark complete" */
    uint8_t p, q;     /* universally quantified pair of slots */
};
#ifdef VERIF_CBMC
struct inputs nondet_inputs(void);
#endif
static struct inputs in;
static void load_inputs(void) {
#ifdef VERIF_CBMC
    in = nondet_inputs();
#else
#include "replay_init.inc"
#endif
}

static bool key_eq(const session_entry *e, const uint8_t *mac, uint16_t gen) {
    return e->mapper_mac[0] == mac[0] && e->mapper_mac[1] == mac[1] && e->mapper_mac[2] == mac[2] &&
           e->mapper_mac[3] == mac[3] && e->mapper_mac[4] == mac[4] && e->mapper_mac[5] == mac[5] &&
           e->generation == gen;
}

static bool entry_same(const session_entry *a, const session_entry *b) {
    return key_eq(a, b->mapper_mac, b->generation) && a->seq_number == b->seq_number && a->state == b->state &&
           a->complete == b->complete && a->valid == b->valid && a->last_activity_ts == b->last_activity_ts &&
           a->created_ts == b->created_ts;
}

/* representation invariant */
static bool inv_R(const session_table *t, uint64_t now) {
    unsigned nvalid = 0; bool allc = true;
    for (int i = 0; i < N; i++) {
        const session_entry *e = &t->entries[i];
        if (e->valid) {
            nvalid++;
            if (!e->complete) allc = false;
            if (e->last_activity_ts > now) return false;
            for (int j2 = i + 1; j2 < N; j2++) {
                const session_entry *f = &t->entries[j2];
                if (f->valid && key_eq(f, e->mapper_mac, e->generation)) return false;
            }
        }
    }
    if (t->count != nvalid) return false;
    if (t->all_complete != allc) return false;
    return true;
}

static session_table *T;   /* the real table object */
static session_table old;

static void setup(void) {
    load_inputs();
    V_ASSUME(in.now_s < (1ull << 62));
    V_ASSUME(in.j < N && in.k < N && in.p < N && in.q < N);
    g_plat.now_s = in.now_s; g_plat.now_ms = in.now_ms;
    T = session_table_create();
    V_ASSUME(T != 0);
    V_ASSERT(T->count == 0 && T->all_complete && session_table_is_empty(T) && session_table_all_complete(T), "C16: a fresh table is empty and all-complete");
    *T = in.tab;
    V_ASSUME(inv_R(T, in.now_s));
    old = *T;
}

static int find_old(void) {
    for (int i = 0; i < N; i++)
        if (old.entries[i].valid && key_eq(&old.entries[i], in.mac, in.gen)) return i;
    return -1;
}

/* R on the post-state: counting loops plus a universally quantified pair (p,q) for key uniqueness */
static void post_R(void) {
    unsigned nvalid = 0; bool allc = true;
    for (int i = 0; i < N; i++) {
        if (T->entries[i].valid) { nvalid++; if (!T->entries[i].complete) allc = false; }
    }
    V_ASSERT(T->count == nvalid, "C16: count equals the number of live sessions");
    V_ASSERT(T->all_complete == allc, "C16: all-complete reports exactly what the live sessions imply");
    const session_entry *ep = &T->entries[in.p], *eq = &T->entries[in.q];
    V_ASSERT(!(in.p != in.q && ep->valid && eq->valid && key_eq(ep, eq->mapper_mac, eq->generation)), "C16: at most one live session per (mapper address, generation)");
    V_ASSERT(!ep->valid || ep->last_activity_ts <= in.now_s, "C16: activity stamps never ahead of the clock");
    V_ASSERT(T->count <= N, "C16: at most 16 sessions");
    V_ASSERT(session_table_is_empty(T) == (T->count == 0), "C16: empty reports count == 0");
    V_ASSERT(session_table_all_complete(T) == T->all_complete, "C16: all_complete accessor reports the flag");
}

void h_add(void) {
    setup();
    int fo = find_old();
    session_entry *r = session_table_add(T, in.mac, in.gen, in.seq);
    const session_entry *oj = &old.entries[in.j], *nj = &T->entries[in.j];
    if (fo >= 0) {
        V_ASSERT(r == &T->entries[fo], "C16: adding a known session returns that session");
        V_ASSERT(T->count == old.count, "C16: adding a known session does not change the count");
        V_ASSERT(r->seq_number == in.seq && r->last_activity_ts == in.now_s, "C16: adding a known session refreshes sequence number and activity time");
        V_ASSERT(r->valid && r->complete == old.entries[fo].complete && r->created_ts == old.entries[fo].created_ts && key_eq(r, in.mac, in.gen),
                 "C16: refresh keeps identity, completion and creation time");
        if (in.j != fo) V_ASSERT(entry_same(oj, nj), "C16: refresh leaves every other slot untouched");
    } else if (old.count < N) {
        V_ASSERT(r != 0, "C16: adding a new session to a non-full table succeeds");
        V_ASSERT(r >= &T->entries[0] && r <= &T->entries[N - 1], "C16: new session lives in the table");
        V_ASSERT(r->valid && !r->complete && key_eq(r, in.mac, in.gen) && r->seq_number == in.seq &&
                 r->last_activity_ts == in.now_s && r->created_ts == in.now_s, "C16: new session is live, incomplete and stamped now");
        V_ASSERT(T->count == old.count + 1, "C16: count grows by exactly one");
        V_ASSERT(!T->all_complete, "C16: a new incomplete session clears all-complete");
        if (nj != r) V_ASSERT(entry_same(oj, nj), "C16: add leaves every other slot untouched");
        else V_ASSERT(!oj->valid, "C16: new session took a free slot");
    } else {
        V_ASSERT(r == 0, "C16: adding to a full table fails");
        V_ASSERT(entry_same(oj, nj) && T->count == old.count && T->all_complete == old.all_complete, "C16: failed add leaves the table undisturbed");
    }
    post_R();
    V_WITNESS("h_add end");
}

void h_find(void) {
    setup();
    int fo = find_old();
    session_entry *r = session_table_find(T, in.mac, in.gen, in.seq);
    if (fo >= 0) V_ASSERT(r == &T->entries[fo], "C16: find returns the live session with that (mapper, generation)");
    else V_ASSERT(r == 0, "C16: find returns nothing for an unknown (mapper, generation)");
    V_ASSERT(entry_same(&old.entries[in.j], &T->entries[in.j]) && T->count == old.count && T->all_complete == old.all_complete, "C16: find does not modify the table");
    V_ASSERT(session_table_find(0, in.mac, in.gen, in.seq) == 0 && session_table_find(T, 0, in.gen, in.seq) == 0, "C16: find tolerates NULL arguments");
    post_R();
    V_WITNESS("h_find end");
}

void h_remove(void) {
    setup();
    int fo = find_old();
    session_table_remove(T, in.mac, in.gen);
    const session_entry *oj = &old.entries[in.j], *nj = &T->entries[in.j];
    if (fo >= 0) {
        V_ASSERT(!T->entries[fo].valid, "C16: removed session is gone");
        V_ASSERT(T->count == old.count - 1, "C16: count shrinks by exactly one");
        if (in.j != fo) V_ASSERT(entry_same(oj, nj), "C16: remove leaves every other slot untouched");
    } else {
        V_ASSERT(entry_same(oj, nj) && T->count == old.count, "C16: removing an unknown session changes nothing");
    }
    V_ASSERT(session_table_find(T, in.mac, in.gen, 0) == 0, "C16: removed key no longer found");
    post_R();
    V_WITNESS("h_remove end");
}

void h_clear(void) {
    setup();
    session_table_clear(T);
    V_ASSERT(T->count == 0 && T->all_complete, "C16: clear empties the table");
    V_ASSERT(!T->entries[in.j].valid, "C16: no live session after clear");
    V_ASSERT(session_table_is_empty(T) && session_table_all_complete(T), "C16: cleared table reports empty and all-complete");
    post_R();
    V_WITNESS("h_clear end");
}

/* completion update as the daemons do it: set entry->complete, then recompute */
void h_complete(void) {
    setup();
    V_ASSUME(old.entries[in.k].valid);
    T->entries[in.k].complete = true;
    session_table_update_complete_status(T);
    bool allc = true;
    for (int i = 0; i < N; i++)
        if (T->entries[i].valid && !T->entries[i].complete) allc = false;
    V_ASSERT(T->all_complete == allc, "C16: all-complete recomputed exactly after a completion update");
    V_ASSERT(T->count == old.count, "C16: completion update does not change the count");
    if (in.j != in.k) V_ASSERT(entry_same(&old.entries[in.j], &T->entries[in.j]), "C16: completion update leaves other slots untouched");
    post_R();
    V_WITNESS("h_complete end");
}

/* expiry sweep of the periodic tick (no automata attached) */
void h_expiry(void) {
    setup();
    automata_tick(0, 0, T, 0);
    const session_entry *oj = &old.entries[in.j], *nj = &T->entries[in.j];
    if (oj->valid) {
        uint64_t idle = in.now_s - oj->last_activity_ts;
        if (idle > 60) V_ASSERT(!nj->valid, "C16: a session idle for more than 60 s is removed by the tick");
        else V_ASSERT(entry_same(oj, nj), "C16: a fresher session survives the tick untouched");
    } else {
        V_ASSERT(!nj->valid, "C16: tick does not create sessions");
    }
    post_R();
    V_WITNESS("h_expiry end");
}

/* C17 for the automata layer: every interface owns its session table. An operation on interface B's table
 * followed by an operation on interface A's table (same or different key): A's operation never returns or
 * modifies an entry of B's table, and behaves as it would without B. */
void h_isolation(void) {
    load_inputs();
    V_ASSUME(in.now_s < (1ull << 62));
    V_ASSUME(in.j < N && in.k < 4 && in.p < 3);
    g_plat.now_s = in.now_s; g_plat.now_ms = in.now_ms;
    session_table *TA = session_table_create(), *TB = session_table_create();
    V_ASSUME(TA != 0 && TB != 0);
    /* B's table: empty or holding the key; A's table: empty */
    if (in.p == 0) (void)session_table_add(TB, in.mac, in.gen, in.seq);
    else if (in.p == 1) { (void)session_table_add(TB, in.mac, in.gen, in.seq); (void)session_table_find(TB, in.mac, in.gen, in.seq); }
    else (void)session_table_find(TB, in.mac, in.gen, in.seq);
    session_table b_before = *TB;
    session_entry *r = 0;
    if (in.k == 0) r = session_table_find(TA, in.mac, in.gen, in.seq);
    else if (in.k == 1) r = session_table_add(TA, in.mac, in.gen, (uint16_t)(in.seq + 1));
    else if (in.k == 2) session_table_remove(TA, in.mac, in.gen);
    else automata_tick(0, 0, TA, 0);
    V_ASSERT(r == 0 || (r >= &TA->entries[0] && r <= &TA->entries[N - 1]), "C17: a lookup in one interface's session table never yields an entry of another interface's table");
    if (in.k == 0) V_ASSERT(r == 0, "C17: a session known only on another interface is unknown on this one");
    if (in.k == 1) V_ASSERT(r != 0 && TA->count == 1, "C17: adding a session on this interface creates it here although another interface knows the same mapper");
    V_ASSERT(entry_same(&b_before.entries[in.j], &TB->entries[in.j]) && TB->count == b_before.count && TB->all_complete == b_before.all_complete,
             "C17: operations on one interface's session table leave the other interface's table untouched");
    V_WITNESS("h_isolation end");
}

#ifndef VERIF_CBMC
int main(void) { HARNESS(); return 0; }
#endif
