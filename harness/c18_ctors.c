/* C18 (constructor clause) — automata constructors under failing allocation:
 * report failure (NULL) or return a fully initialised object; never dereference a missing allocation; no leak. */
#include "vport.c"
#include "v_checks_on.h"
#include "lltdAutomata.c"
#include "v_checks_off.h"

static void on_send(void *c, const uint8_t *f, size_t n) { (void)c; (void)f; (void)n; }
static void on_sleep(uint32_t ms) { (void)ms; }

struct inputs { uint8_t fail_malloc[V_MAXFAIL]; uint8_t which; uint64_t now_s, now_ms; };
#ifdef VERIF_CBMC
struct inputs nondet_inputs(void);
#endif
static struct inputs in;
static void load_inputs(void) {
#ifdef VERIF_CBMC
    in = nondet_inputs();
#else
#include "replay_init.inc"
#endif
}

void h_ctors(void) {
    load_inputs();
    g_faults_on = 1;
#define FS(i) g_fail_malloc[i] = in.fail_malloc[i] & 1
    FS(0); FS(1); FS(2); FS(3); FS(4); FS(5); FS(6); FS(7);
#undef FS
    g_plat.now_s = in.now_s; g_plat.now_ms = in.now_ms;
    V_ASSUME(in.which <= 3);
    if (in.which == 0) {
        automata *a = init_automata_mapping();
        if (a) {
            V_ASSERT(a->states_no == 3 && a->transitions_no == 13 && a->current_state == 0, "C18: mapping automaton fully initialised when construction succeeds");
            V_ASSERT(g_live_blocks == 1 + (a->extra ? 1 : 0), "C18: mapping constructor holds exactly the automaton and its extra state (if that could be allocated)");
            if (a->extra) V_ASSERT(((mapping_state *)a->extra)->ctc == 0 && ((mapping_state *)a->extra)->inactive_timeout_ts == 0, "C18: mapping extra state initialised");
        } else {
            V_ASSERT(g_live_blocks == 0, "C18: failed mapping construction leaks nothing");
        }
    } else if (in.which == 1) {
        automata *a = init_automata_enumeration();
        if (a) {
            V_ASSERT(a->states_no == 3 && a->transitions_no == 8 && a->current_state == 0, "C18: enumeration automaton fully initialised when construction succeeds");
            band_state *b = (band_state *)a->extra;
            if (b) V_ASSERT(b->Ni == BAND_ALPHA && b->r == 0 && !b->begun, "C18: RepeatBand state initialised");
            V_ASSERT(g_live_blocks == 1 + (a->extra ? 1 : 0), "C18: enumeration constructor holds exactly the automaton and its band state (if that could be allocated)");
        } else {
            V_ASSERT(g_live_blocks == 0, "C18: failed enumeration construction leaks nothing");
        }
    } else if (in.which == 2) {
        automata *a = init_automata_session();
        if (a) {
            V_ASSERT(a->states_no == 4 && a->transitions_no == 16 && a->current_state == 1 && a->extra == 0, "C18: session automaton fully initialised when construction succeeds");
            V_ASSERT(g_live_blocks == 1, "C18: session constructor holds exactly the automaton");
        } else {
            V_ASSERT(g_live_blocks == 0, "C18: failed session construction leaks nothing");
        }
    } else {
        session_table *t = session_table_create();
        if (t) {
            V_ASSERT(t->count == 0 && t->all_complete, "C18: session table initialised when construction succeeds");
            session_table_destroy(t);
        }
        V_ASSERT(g_live_blocks == 0, "C18: table create/destroy leaks nothing");
        session_table_destroy(0);
    }
    V_WITNESS("h_ctors end");
}

#ifndef VERIF_CBMC
int main(void) { HARNESS(); return 0; }
#endif
