/* C18 (constructor clause) — automata constructors under failing allocation:
 * report failure (NULL) or return a fully initialised object; never dereference a missing allocation; no leak. */
#include "vport.c"
#include "v_checks_on.h"
#include "lltdAutomata.c"
#include "v_checks_off.h"

static void on_send(void *c, const uint8_t *f, size_t n) { (void)c; (void)f; (void)n; }
static void on_sleep(uint32_t ms) { (void)ms; }

struct inputs { uint8_t fail_malloc[V_MAXFAIL]; uint8_t which; uint64_t now_s, now_ms; uint8_t ms, es; session_table tab; uint64_t ih, ib; uint8_t op; };
#ifdef VERIF_CBMC
struct inputs nondet_inputs(void);
#endif
static struct inputs in;
static void load_inputs(void) {
#ifdef VERIF_CBMC
    in = nondet_inputs();
#else
#include "replay_init.inc"
#endif
}

void h_ctors(void) {
    load_inputs();
    g_faults_on = 1;
#define FS(i) g_fail_malloc[i] = in.fail_malloc[i] & 1
    FS(0); FS(1); FS(2); FS(3); FS(4); FS(5); FS(6); FS(7);
#undef FS
    g_plat.now_s = in.now_s; g_plat.now_ms = in.now_ms;
    V_ASSUME(in.which <= 3);
    if (in.which == 0) {
        automata *a = init_automata_mapping();
        if (a) {
            V_ASSERT(a->states_no == 3 && a->transitions_no == 13 && a->current_state == 0, "C18: mapping automaton fully initialised when construction succeeds");
            V_ASSERT(g_live_blocks == 1 + (a->extra ? 1 : 0), "C18: mapping constructor holds exactly the automaton and its extra state (if that could be allocated)");
            if (a->extra) V_ASSERT(((mapping_state *)a->extra)->ctc == 0 && ((mapping_state *)a->extra)->inactive_timeout_ts == 0, "C18: mapping extra state initialised");
        } else {
            V_ASSERT(g_live_blocks == 0, "C18: failed mapping construction leaks nothing");
        }
    } else if (in.which == 1) {
        automata *a = init_automata_enumeration();
        if (a) {
            V_ASSERT(a->states_no == 3 && a->transitions_no == 8 && a->current_state == 0, "C18: enumeration automaton fully initialised when construction succeeds");
            band_state *b = (band_state *)a->extra;
            if (b) V_ASSERT(b->Ni == BAND_ALPHA && b->r == 0 && !b->begun, "C18: RepeatBand state initialised");
            V_ASSERT(g_live_blocks == 1 + (a->extra ? 1 : 0), "C18: enumeration constructor holds exactly the automaton and its band state (if that could be allocated)");
        } else {
            V_ASSERT(g_live_blocks == 0, "C18: failed enumeration construction leaks nothing");
        }
    } else if (in.which == 2) {
        automata *a = init_automata_session();
        if (a) {
            V_ASSERT(a->states_no == 4 && a->transitions_no == 16 && a->current_state == 1 && a->extra == 0, "C18: session automaton fully initialised when construction succeeds");
            V_ASSERT(g_live_blocks == 1, "C18: session constructor holds exactly the automaton");
        } else {
            V_ASSERT(g_live_blocks == 0, "C18: failed session construction leaks nothing");
        }
    } else {
        session_table *t = session_table_create();
        if (t) {
            V_ASSERT(t->count == 0 && t->all_complete, "C18: session table initialised when construction succeeds");
            session_table_destroy(t);
        }
        V_ASSERT(g_live_blocks == 0, "C18: table create/destroy leaks nothing");
        session_table_destroy(0);
    }
    V_WITNESS("h_ctors end");
}


/* representation invariant of a session table as far as consumers outside the table code rely on it */
static bool tab_consistent(const session_table *t) {
    unsigned nv = 0; bool allc = true;
    for (int i = 0; i < SESSION_TABLE_MAX_ENTRIES; i++) if (t->entries[i].valid) { nv++; if (!t->entries[i].complete) allc = false; }
    return t->count == nv && t->all_complete == allc;
}

/* degraded start-up: whatever the constructors hand out after allocation faults (in particular automata whose
 * extra state is missing) must be safe to drive: the periodic tick and the band / mapping helpers never dereference
 * the missing part. */
static unsigned g_deg_hello;
static void deg_send_hello(void *ni) { (void)ni; g_deg_hello++; }
void h_degraded(void) {
    load_inputs();
    g_faults_on = 1;
#define FS(i) g_fail_malloc[i] = in.fail_malloc[i] & 1
    FS(0); FS(1); FS(2); FS(3); FS(4); FS(5); FS(6); FS(7);
#undef FS
    g_plat.now_s = 0; g_plat.now_ms = 0;
    automata *m = init_automata_mapping();
    automata *e = init_automata_enumeration();
    session_table *t = session_table_create();
    g_faults_on = 0;                        /* the fault has cleared; the responder keeps running with what it got */
    V_ASSUME(in.ms <= 2 && in.es <= 2);
    if (m) m->current_state = in.ms;
    if (e) { e->current_state = in.es; if (e->extra) { ((band_state *)e->extra)->hello_timeout_ts = in.ih; ((band_state *)e->extra)->block_timeout_ts = in.ib; } }
    if (t) { *t = in.tab; V_ASSUME(tab_consistent(t)); }
    V_ASSUME(in.now_s < (1ull << 62) && in.now_ms < (1ull << 62));
    for (int i = 0; i < SESSION_TABLE_MAX_ENTRIES; i++) V_ASSUME(in.tab.entries[i].last_activity_ts < (1ull << 62));
    g_plat.now_s = in.now_s; g_plat.now_ms = in.now_ms;
    uint64_t last_tx = 0; int token;
    lltd_automata_tick_port port; port.network_interface = &token; port.last_hello_tx_ms = &last_tx; port.send_hello = deg_send_hello;
    automata_tick(m, e, t, &port);
    /* the helpers the daemons call on received frames, with whatever extra state exists */
    band_state *b = e ? (band_state *)e->extra : 0;
    mapping_state *ms = m ? (mapping_state *)m->extra : 0;
    band_on_hello_received(b); band_init_stats(b); band_update_stats(b); (void)band_choose_hello_time(b); band_do_hello(b);
    mapping_on_charge(ms); mapping_reset_charge(ms); (void)mapping_check_charge_timeout(ms); (void)mapping_check_inactive_timeout(ms); mapping_reset_inactive_timeout(ms);
    (void)session_table_is_empty(t); (void)session_table_all_complete(t); session_table_clear(t); session_table_update_complete_status(t);
    automata_tick(m, e, t, &port);
    V_ASSERT(g_deg_hello <= 2, "C18: at most one periodic Hello per tick also in degraded operation");
    V_WITNESS("h_degraded end");
}

#ifndef VERIF_CBMC
int main(void) { HARNESS(); return 0; }
#endif
