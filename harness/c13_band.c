/* C13 — RepeatBand back-off: formula without wrap-around, bounds, monotonicity.
 * Real code: band_update_stats, band_choose_hello_time (lltdAutomata.c). */
#include "vport.c"
#include "v_checks_on.h"
#include "lltdAutomata.c"
#include "v_checks_off.h"

static void on_send(void *c, const uint8_t *f, size_t n) { (void)c; (void)f; (void)n; }
static void on_sleep(uint32_t ms) { (void)ms; }

struct inputs {
    uint32_t r, ni, r2;
    uint8_t begun;
    uint64_t now_ms;
    uint64_t hello_ts, block_ts;
};
#ifdef VERIF_CBMC
struct inputs nondet_inputs(void);
#endif
static struct inputs in;

static void load_inputs(void) {
#ifdef VERIF_CBMC
    in = nondet_inputs();
#else
#include "replay_init.inc"
#endif
}

/* reference: min(NMAX, ALPHA * r^2) without ever multiplying large numbers */
static uint32_t ref_ni(uint32_t r) {
    if (r >= 15) return 10000u;           /* 45*15*15 = 10125 > NMAX */
    uint32_t v = 45u * r * r;             /* <= 45*196 = 8820 */
    return v > 10000u ? 10000u : v;
}

void h_update(void) {
    load_inputs();
    V_ASSUME(in.begun <= 1);
    V_ASSUME(in.now_ms <= 0xFFFFFFFFFFFF0000ull);
    g_plat.now_ms = in.now_ms;
    band_state b;
    b.r = in.r; b.Ni = in.ni; b.begun = in.begun;
    b.hello_timeout_ts = in.hello_ts; b.block_timeout_ts = in.block_ts;
    band_update_stats(&b);
    if (in.r > 0 && in.begun) {
        V_ASSERT(b.Ni == ref_ni(in.r), "C13: Ni' == min(NMAX, ALPHA*r^BETA) computed without wrap-around");
        V_ASSERT(b.Ni >= 45 && b.Ni <= 10000, "C13: count within [ALPHA, NMAX]");
    } else {
        V_ASSERT(b.Ni == in.ni, "C13: count unchanged when r == 0 or enumeration not begun");
    }
    V_ASSERT(b.r == 0, "C13: r reset at end of block");
    V_ASSERT(b.begun == (bool)in.begun, "C13: begun untouched by update");
    V_ASSERT(b.block_timeout_ts == in.now_ms + 300, "C13: next block ends BLOCK_TIME after now");
    V_WITNESS("h_update end");
}

/* interval I = result - now must satisfy ceil(80*Ni/30) with floor 6:
 * 30*I >= 80*Ni > 30*(I-1), or I == 6 when that value is below 6. */
static void check_interval(uint64_t I, uint32_t ni) {
    uint64_t need = 80ull * ni;
    V_ASSERT(30ull * I >= need, "C13: next Hello no sooner than the load formula allows");
    V_ASSERT(I >= 6, "C13: frame-time floor");
    V_ASSERT(I == 6 || 30ull * (I - 1) < need, "C13: interval is the ceiling, not more");
}

void h_interval(void) {
    load_inputs();
    V_ASSUME(in.ni <= 10000);
    V_ASSUME(in.begun <= 1);
    V_ASSUME(in.now_ms <= 0xFFFFFFFFFFFF0000ull);
    g_plat.now_ms = in.now_ms;
    band_state b;
    b.r = in.r; b.Ni = in.ni; b.begun = in.begun;
    b.hello_timeout_ts = in.hello_ts; b.block_timeout_ts = in.block_ts;
    uint64_t t = band_choose_hello_time(&b);
    V_ASSERT(t == b.hello_timeout_ts, "C13: returned deadline is the stored deadline");
    V_ASSERT(t >= in.now_ms, "C13: deadline not in the past");
    check_interval(t - in.now_ms, in.ni);
    V_ASSERT(b.Ni == in.ni && b.r == in.r && b.begun == (bool)in.begun, "C13: choose_hello_time leaves statistics alone");
    V_WITNESS("h_interval end");
}

/* monotonicity: r1 <= r2 (both > 0, begun) => Ni'(r1) <= Ni'(r2) and interval(r1) <= interval(r2);
 * also hearing more never shortens vs hearing r1 (same prior count). */
void h_mono(void) {
    load_inputs();
    V_ASSUME(in.r <= in.r2);
    V_ASSUME(in.begun <= 1);
    V_ASSUME(in.now_ms <= 0xFFFFFFFFFFFF0000ull);
    V_ASSUME(in.ni >= 45 && in.ni <= 10000);
    g_plat.now_ms = in.now_ms;
    band_state b1, b2;
    b1.r = in.r;  b1.Ni = in.ni; b1.begun = in.begun; b1.hello_timeout_ts = 0; b1.block_timeout_ts = 0;
    b2.r = in.r2; b2.Ni = in.ni; b2.begun = in.begun; b2.hello_timeout_ts = 0; b2.block_timeout_ts = 0;
    band_update_stats(&b1);
    band_update_stats(&b2);
    if (in.r > 0) {
        V_ASSERT(b1.Ni <= b2.Ni, "C13: hearing more Hellos never lowers the count");
    }
    uint64_t t1 = band_choose_hello_time(&b1);
    uint64_t t2 = band_choose_hello_time(&b2);
    if (in.r > 0) {
        V_ASSERT(t1 <= t2, "C13: hearing more Hellos never shortens the next interval");
    }
    V_ASSERT(b1.Ni >= 45 && b1.Ni <= 10000 && b2.Ni >= 45 && b2.Ni <= 10000, "C13: count stays within [ALPHA, NMAX] from a count within it");
    V_WITNESS("h_mono end");
}

/* band_on_hello_received + band_do_hello: bookkeeping feeding the formula */
void h_heard(void) {
    load_inputs();
    V_ASSUME(in.begun <= 1);
    V_ASSUME(in.r < 0xFFFFFFFFu);
    band_state b;
    b.r = in.r; b.Ni = in.ni; b.begun = in.begun; b.hello_timeout_ts = in.hello_ts; b.block_timeout_ts = in.block_ts;
    band_on_hello_received(&b);
    V_ASSERT(b.r == in.r + 1, "C13: each heard Hello counts once");
    V_ASSERT(b.Ni == in.ni, "C13: hearing a Hello does not change the count before block end");
    V_ASSERT(b.begun == (in.begun || in.r + 1 >= 10), "C13: begun latches at GAMMA heard Hellos");
    V_WITNESS("h_heard end");
}

#ifndef VERIF_CBMC
int main(int argc, char **argv) {
    (void)argc; (void)argv;
    HARNESS();
    return 0;
}
#endif
