/* harness code: no CBMC-generated safety checks (they are wanted in the repository's code only) */
#ifdef VERIF_CBMC
#pragma CPROVER check push
#pragma CPROVER check disable "bounds"
#pragma CPROVER check disable "pointer"
#pragma CPROVER check disable "div-by-zero"
#pragma CPROVER check disable "signed-overflow"
#pragma CPROVER check disable "unsigned-overflow"
#pragma CPROVER check disable "pointer-overflow"
#pragma CPROVER check disable "conversion"
#pragma CPROVER check disable "undefined-shift"
#pragma CPROVER check disable "pointer-primitive"
#pragma CPROVER check disable "enum-range"
#endif
