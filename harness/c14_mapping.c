/* C14 — mapping engine state machine + timeouts.
 * Real code: init_automata_mapping, switch_state_mapping, mapping_reset_inactive_timeout,
 * automata_tick (lltdAutomata.c). */
#include "vport.c"
#include "v_checks_on.h"
#include "lltdAutomata.c"
#include "v_checks_off.h"

static void on_send(void *c, const uint8_t *f, size_t n) { (void)c; (void)f; (void)n; }
static void on_sleep(uint32_t ms) { (void)ms; }

struct inputs {
    uint8_t state;
    int input;
    uint64_t last_ts, now_s, now_ms, t0;
    uint8_t ctc;
    uint64_t charge_ts;
    session_table tab;
    uint8_t with_table;
};
#ifdef VERIF_CBMC
struct inputs nondet_inputs(void);
#endif
static struct inputs in;
static void load_inputs(void) {
#ifdef VERIF_CBMC
    in = nondet_inputs();
#else
#include "replay_init.inc"
#endif
}


/* representation invariant of a session table as far as consumers outside the table code rely on it */
static bool tab_consistent(const session_table *t) {
    unsigned nv = 0; bool allc = true;
    for (int i = 0; i < SESSION_TABLE_MAX_ENTRIES; i++) if (t->entries[i].valid) { nv++; if (!t->entries[i].complete) allc = false; }
    return t->count == nv && t->all_complete == allc;
}

enum { Q = 0, C = 1, E = 2 };

/* exhaustive single step: state x input in [-128,255] x any elapsed time */
void h_step(void) {
    load_inputs();
    automata *a = init_automata_mapping();
    V_ASSUME(a != 0);
    V_ASSUME(in.state <= 2);
    V_ASSUME(in.input >= -128 && in.input <= 255);
    V_ASSUME(in.last_ts <= in.now_s);
    V_ASSERT(a->current_state == Q, "C14: engine starts idle");
    V_ASSERT(a->states_table[Q].timeout == 0, "C14: idle state has no timeout");
    V_ASSERT(a->states_table[C].timeout >= 1 && a->states_table[C].timeout <= 30, "C14: Command timeout non-zero and at most 30 s");
    V_ASSERT(a->states_table[E].timeout >= 1 && a->states_table[E].timeout <= 30, "C14: Emit timeout non-zero and at most 30 s");
    uint64_t tmo = (uint64_t)a->states_table[in.state].timeout;
    a->current_state = in.state;
    a->last_ts = in.last_ts;
    g_plat.now_s = in.now_s;
    uint64_t elapsed = in.now_s - in.last_ts;

    automata *ret = switch_state_mapping(a, in.input, (char *)"rx");
    V_ASSERT(ret == a, "C14: returns the automaton");
    uint8_t s = a->current_state;
    V_ASSERT(s <= 2, "C14: state stays within the three states");
    V_ASSERT(a->last_ts == in.now_s, "C14: last input time recorded");

    bool timed_out = (in.state != Q) && elapsed > tmo;
    if (timed_out) {
        V_ASSERT(s == Q || (in.input == opcode_discover && s == C), "C14: expired active state falls back to idle (only a Discover may reopen)");
    } else {
        uint8_t exp = in.state;
        if (in.state == Q && in.input == opcode_discover) exp = C;
        else if (in.state == C && in.input == opcode_emit) exp = E;
        else if (in.state == E && in.input == -3) exp = C;
        else if (in.state != Q && in.input == opcode_reset) exp = Q;
        else if (in.state != Q && in.input == -1) exp = Q;
        V_ASSERT(s == exp, "C14: single step follows the mapping state machine (Discover opens, Emit, emission done, Reset/-1 end; all else unchanged)");
    }
    V_WITNESS("h_step end");
}

/* tick-driven 30 s rule */
void h_tick(void) {
    load_inputs();
    automata *a = init_automata_mapping();
    V_ASSUME(a != 0 && a->extra != 0);
    V_ASSUME(in.state <= 2);
    V_ASSUME(in.t0 <= in.now_s && in.now_s < (1ull << 62));
    V_ASSUME(in.last_ts <= in.now_s);
    mapping_state *m = (mapping_state *)a->extra;
    a->current_state = in.state;
    a->last_ts = in.last_ts;
    g_plat.now_s = in.t0;
    mapping_reset_inactive_timeout(m);     /* "a frame arrived at t0" */
    m->ctc = in.ctc;
    m->charge_timeout_ts = in.charge_ts;
    session_table *tab = 0;
    if (in.with_table) {
        tab = session_table_create();
        V_ASSUME(tab != 0);
        *tab = in.tab;
        V_ASSUME(tab_consistent(tab));
    }
    g_plat.now_s = in.now_s; g_plat.now_ms = in.now_ms;
    automata_tick(a, 0, tab, 0);
    uint64_t dt = in.now_s - in.t0;
    if (dt > 30) {
        V_ASSERT(a->current_state == Q, "C14: tick ends the session after 30 s without a frame");
        V_ASSERT(m->ctc == 0, "C14: tick clears the charge counter after 30 s without a frame");
        if (tab) {
            V_ASSERT(tab->count == 0 && session_table_is_empty(tab), "C14: tick empties the session table after 30 s without a frame");
            for (int i = 0; i < SESSION_TABLE_MAX_ENTRIES; i++)
                V_ASSERT(!tab->entries[i].valid, "C14: no live session left after inactivity timeout");
        }
    } else if (dt < 30) {
        V_ASSERT(m->inactive_timeout_ts == in.t0 + 30, "C14: a tick before the 30 s deadline leaves the deadline armed (so a later tick still ends the session)");
        bool expired = in.state != Q && (in.now_s - in.last_ts) > (uint64_t)a->states_table[in.state].timeout;
        (void)expired;
        V_ASSERT(a->current_state == in.state, "C14: tick leaves the state alone before the 30 s deadline");
        if (!(in.charge_ts != 0 && in.now_s >= in.charge_ts))
            V_ASSERT(m->ctc == in.ctc, "C14: tick leaves the charge counter alone before the deadlines");
    }
    V_WITNESS("h_tick end");
}

/* two ticks: any tick strictly before the deadline, then one more than 30 s after the last frame */
void h_two_ticks(void) {
    load_inputs();
    automata *a = init_automata_mapping();
    V_ASSUME(a != 0 && a->extra != 0);
    V_ASSUME(in.state <= 2);
    V_ASSUME(in.t0 <= in.last_ts && in.last_ts <= in.now_s && in.now_s < (1ull << 62));
    mapping_state *m = (mapping_state *)a->extra;
    a->current_state = in.state;
    a->last_ts = in.t0;
    g_plat.now_s = in.t0;
    mapping_reset_inactive_timeout(m);
    m->ctc = in.ctc;
    m->charge_timeout_ts = in.charge_ts;
    session_table *tab = session_table_create();
    V_ASSUME(tab != 0);
    *tab = in.tab;
    V_ASSUME(tab_consistent(tab));
    V_ASSUME(in.last_ts - in.t0 < 30);          /* first tick before the deadline (in.last_ts reused as its time) */
    g_plat.now_s = in.last_ts; g_plat.now_ms = in.now_ms;
    automata_tick(a, 0, tab, 0);
    V_ASSUME(in.now_s - in.t0 > 30);
    g_plat.now_s = in.now_s;
    automata_tick(a, 0, tab, 0);
    V_ASSERT(a->current_state == Q && m->ctc == 0 && tab->count == 0, "C14: after 30 s without any frame a tick ends the session, whatever ticks ran in between");
    V_WITNESS("h_two_ticks end");
}

#ifndef VERIF_CBMC
int main(void) { HARNESS(); return 0; }
#endif
