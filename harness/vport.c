/*
 * Verification port: every lltd_port_* symbol the protocol core links against,
 * in two modes selected by the compiler:
 *   - CBMC (goto-cc defines VERIF_CBMC): heap objects are CBMC objects, all
 *     environment values come from the harness-owned symbolic `in` struct.
 *   - native replay (gcc + sanitizers): same code, `in` is filled from a
 *     counterexample (replay_init.inc), assumptions exit(77), assertions abort.
 *
 * This file is #included by each harness (one translation unit per harness,
 * together with the repo sources that the harness #includes).
 */
#ifndef VPORT_C
#define VPORT_C

#include <stddef.h>
#include <stdint.h>
#include <stdbool.h>
#include <stdarg.h>

#include "lltdPort.h"
#include "v_checks_off.h"

#include "vmacros.h"

/* ---- configuration supplied by the "platform" --------------------------- */
#define V_NAME_MAX 40
typedef struct vcfg {
    uint8_t  mac[6];      uint8_t mac_fail;
    size_t   mtu;         uint8_t mtu_fail;
    uint32_t flags;
    uint32_t iftype;      uint8_t iftype_fail;
    uint32_t ipv4;        uint8_t ipv4_fail;
    uint8_t  ipv6[16];    uint8_t ipv6_fail;
    uint32_t speed;       uint8_t speed_fail;
    uint8_t  wifi_mode;   uint8_t wifi_fail;
    uint8_t  bssid[6];    uint8_t bssid_fail;
    uint8_t  ssid[V_NAME_MAX]; uint8_t ssid_len; uint8_t ssid_ret_full;
    uint16_t rate;        uint8_t rate_fail;
    int8_t   rssi;        uint8_t rssi_fail;
    uint32_t phy;         uint8_t phy_fail;
} vcfg;

/* context-free platform data */
typedef struct vglobal {
    uint8_t  hostname[V_NAME_MAX]; uint8_t hostname_len; uint8_t hostname_ret_full;
    uint8_t  hwid[64];    uint8_t hwid_len;
    uint8_t  uuid[16];    uint8_t uuid_fail;
    uint8_t  icon_fail;   uint32_t icon_size;
    uint8_t  name_fail;   uint32_t name_size;
    uint64_t now_ms;      uint64_t now_s;
} vglobal;

static vglobal g_plat;

/* Large-property payloads: content pattern function in native mode, arbitrary
 * (uninitialised CBMC heap = nondeterministic) under CBMC. The harness reads the
 * very object handed to the core through these pointers. */
static uint8_t *g_last_icon;     /* last buffer handed out by get_icon_image */
static uint8_t *g_last_name;     /* last buffer handed out by get_friendly_name */
static uint8_t *g_last_hwid_dst; /* last buffer the hardware id was written into */

/* ---- fault schedule + ledger --------------------------------------------- */
#define V_MAXFAIL 8
static uint8_t  g_fail_malloc[V_MAXFAIL]; /* i-th malloc fails iff set (if enabled) */
static uint8_t  g_fail_send[V_MAXFAIL];
static uint8_t  g_faults_on;
static unsigned g_nmalloc, g_nfree, g_nsend, g_nsleep, g_nevent;
static long     g_live_blocks;
static unsigned long g_live_bytes;

static void *g_ctx_guard;      /* when set: every context-taking port call must carry this interface context (C17) */
#define V_CTX(ctx) V_ASSERT(g_ctx_guard == 0 || (ctx) == g_ctx_guard, "C17: platform calls carry the context of the interface the frame arrived on")

/* C17 thread model at port calls: while one interface's thread is inside a platform call (sleep, send,
 * allocation, getter) the other interface's thread may run. When armed, the hook runs once, at the
 * g_preempt_at-th port call. */
#ifdef V_PREEMPT
static void v_preempt_target(void);          /* defined by the harness */
static int g_preempt_armed;
static unsigned g_portcalls, g_preempt_at;
static void v_preempt(void) {
    if (g_preempt_armed) {
        if (g_portcalls++ == g_preempt_at) {
            g_preempt_armed = 0;
            v_preempt_target();
        }
    }
}
#else
#define v_preempt() do { } while (0)
#endif

/* harness hooks */
static void on_send(void *ctx, const uint8_t *f, size_t n);
static void on_sleep(uint32_t ms);

/* ---- implementation -------------------------------------------------------- */
uint64_t lltd_port_monotonic_seconds(void) { return g_plat.now_s; }
uint64_t lltd_port_monotonic_milliseconds(void) { return g_plat.now_ms; }

#ifndef VERIF_CBMC
/* native: remember sizes for the byte ledger, poison fresh memory */
typedef struct vhdr { size_t size; size_t magic; } vhdr;
static uint8_t g_fill = 0xA5;
#endif

static void *v_alloc(size_t size) {
#ifdef VERIF_CBMC
    void *p = malloc(size);
    V_ASSUME(p != 0);
#else
    vhdr *h = (vhdr *)malloc(sizeof(vhdr) + size);
    if (!h) { fprintf(stderr, "REPLAY: host malloc failed\n"); exit(78); }
    h->size = size; h->magic = 0x5EC0DE5EC0DEul;
    void *p = (void *)(h + 1);
    memset(p, g_fill, size);
#endif
    g_live_blocks++;
    g_live_bytes += size;
    return p;
}

void *lltd_port_malloc(size_t size) {
    v_preempt();
    unsigned idx = g_nmalloc++;
    if (g_faults_on && idx < V_MAXFAIL && g_fail_malloc[idx]) {
        return NULL;
    }
    return v_alloc(size);
}

void lltd_port_free(void *ptr) {
    v_preempt();
    g_nfree++;
    if (!ptr) return;
#ifdef VERIF_CBMC
    g_live_bytes -= __CPROVER_OBJECT_SIZE(ptr);
    g_live_blocks--;
    free(ptr);
#else
    vhdr *h = ((vhdr *)ptr) - 1;
    if (h->magic != 0x5EC0DE5EC0DEul) { fprintf(stderr, "REPLAY-ASSERT-FAILED: free of non-ledger pointer\n"); exit(66); }
    g_live_bytes -= h->size;
    g_live_blocks--;
    h->magic = 0;
    free(h);
#endif
}

void *lltd_port_memset(void *ptr, int value, size_t num) { return memset(ptr, value, num); }
#ifdef V_MEMCPY_RECORD
/* Contract model of the port's memcpy for queries whose subject is a copy of symbolic length from a
 * symbolic offset (large-property payload): the arguments are recorded and checked for validity, the
 * bytes themselves are not moved under CBMC (copying is the port's contract: dst[0..n) = src[0..n)). */
static const void *g_mc_src; static void *g_mc_dst; static size_t g_mc_n; static unsigned g_mc_calls;
void *lltd_port_memcpy(void *d, const void *s, size_t num) {
#ifdef VERIF_CBMC
    __CPROVER_assert(__CPROVER_r_ok(s, num), "C01,C02,C08: memcpy source region readable (payload bytes come from the property's own object, never from memory beyond it)");
    __CPROVER_assert(__CPROVER_w_ok(d, num), "C01,C02,C08: memcpy destination region writable");
#else
    memcpy(d, s, num);
#endif
    g_mc_dst = d; g_mc_src = s; g_mc_n = num; g_mc_calls++;
    return d;
}
#else
void *lltd_port_memcpy(void *d, const void *s, size_t num) { return memcpy(d, s, num); }
#endif
int lltd_port_memcmp(const void *a, const void *b, size_t num) { return memcmp(a, b, num); }

void lltd_port_sleep_ms(uint32_t ms) { g_nsleep++; on_sleep(ms); g_nevent++; v_preempt(); }

int lltd_port_send_frame(void *iface_ctx, const void *frame, size_t frame_len) {
    unsigned idx = g_nsend++;
    V_CTX(iface_ctx);
#ifdef VERIF_CBMC
    __CPROVER_assert(frame != 0 && __CPROVER_r_ok(frame, frame_len), "C01,C02,C18: transmitted frame readable for its whole length");
#endif
    v_preempt();
    on_send(iface_ctx, (const uint8_t *)frame, frame_len);
    g_nevent++;
    if (g_faults_on && idx < V_MAXFAIL && g_fail_send[idx]) return -1;
    return 0;
}

int lltd_port_get_mtu(void *iface_ctx, size_t *out_mtu) {
    V_CTX(iface_ctx);
    v_preempt();
    vcfg *c = (vcfg *)iface_ctx;
    if (c->mtu_fail) return -1;
    *out_mtu = c->mtu;
    return 0;
}

static uint8_t v_pattern(size_t i, uint8_t salt) { return (uint8_t)((i * 7u + (i >> 8) * 13u + salt) & 0xFFu); }

int lltd_port_get_icon_image(void **out_data, size_t *out_size) {
    if (g_plat.icon_fail) return -1;
    uint8_t *p = (uint8_t *)v_alloc(g_plat.icon_size ? g_plat.icon_size : 1);
#ifndef VERIF_CBMC
    for (size_t i = 0; i < g_plat.icon_size; i++) p[i] = v_pattern(i, 0x11);
#endif
    g_last_icon = p;
    *out_data = p;
    *out_size = g_plat.icon_size;
    return 0;
}

int lltd_port_get_friendly_name(void **out_data, size_t *out_size) {
    if (g_plat.name_fail) return -1;
    uint8_t *p = (uint8_t *)v_alloc(g_plat.name_size ? g_plat.name_size : 1);
#ifndef VERIF_CBMC
    for (size_t i = 0; i < g_plat.name_size; i++) p[i] = v_pattern(i, 0x77);
#endif
    g_last_name = p;
    *out_data = p;
    *out_size = g_plat.name_size;
    return 0;
}

/* name getters: write min(len, dst_len) bytes; return either that or the
 * untruncated length (both are seen in the ports) */
static size_t v_copy_name(void *dst, size_t dst_len, const uint8_t *src, uint8_t len, uint8_t ret_full) {
    size_t n = len;
    if (n > V_NAME_MAX) n = V_NAME_MAX;
    size_t w = n > dst_len ? dst_len : n;
    if (w > 0) memcpy(dst, src, w);
    return ret_full ? n : w;
}

size_t lltd_port_get_hostname(void *dst, size_t dst_len) {
    return v_copy_name(dst, dst_len, g_plat.hostname, g_plat.hostname_len, g_plat.hostname_ret_full);
}

size_t lltd_port_get_support_url(void *dst, size_t dst_len) { (void)dst; (void)dst_len; return 0; }

int lltd_port_get_upnp_uuid(uint8_t out_uuid[16]) {
    if (g_plat.uuid_fail) return -1;
    memcpy(out_uuid, g_plat.uuid, 16);
    return 0;
}

size_t lltd_port_get_hw_id(void *dst, size_t dst_len) {
    size_t n = g_plat.hwid_len;
    if (n > 64) n = 64;
    if (n > dst_len) n = dst_len;
    if (n > 0) memcpy(dst, g_plat.hwid, n);
    g_last_hwid_dst = (uint8_t *)dst;
    return n;
}

int lltd_port_get_mac_address(void *iface_ctx, ethernet_address_t *out_mac) {
    V_CTX(iface_ctx);
    v_preempt();
    vcfg *c = (vcfg *)iface_ctx;
    if (c->mac_fail) return -1;
    memcpy(out_mac->a, c->mac, 6);
    return 0;
}

uint32_t lltd_port_get_characteristics_flags(void *iface_ctx) { V_CTX(iface_ctx); return ((vcfg *)iface_ctx)->flags; }

int lltd_port_get_if_type(void *iface_ctx, uint32_t *out) {
    V_CTX(iface_ctx);
    vcfg *c = (vcfg *)iface_ctx; if (c->iftype_fail) return -1; *out = c->iftype; return 0;
}
int lltd_port_get_ipv4_address(void *iface_ctx, uint32_t *out) {
    V_CTX(iface_ctx);
    vcfg *c = (vcfg *)iface_ctx; if (c->ipv4_fail) return -1; *out = c->ipv4; return 0;
}
int lltd_port_get_ipv6_address(void *iface_ctx, uint8_t out[16]) {
    V_CTX(iface_ctx);
    vcfg *c = (vcfg *)iface_ctx; if (c->ipv6_fail) return -1;
    memcpy(out, c->ipv6, 16);
    return 0;
}
int lltd_port_get_link_speed_100bps(void *iface_ctx, uint32_t *out) {
    V_CTX(iface_ctx);
    vcfg *c = (vcfg *)iface_ctx; if (c->speed_fail) return -1; *out = c->speed; return 0;
}
int lltd_port_get_wifi_mode(void *iface_ctx, uint8_t *out) {
    V_CTX(iface_ctx);
    vcfg *c = (vcfg *)iface_ctx; if (c->wifi_fail) return -1; *out = c->wifi_mode; return 0;
}
int lltd_port_get_bssid(void *iface_ctx, uint8_t out[6]) {
    V_CTX(iface_ctx);
    vcfg *c = (vcfg *)iface_ctx; if (c->bssid_fail) return -1;
    memcpy(out, c->bssid, 6);
    return 0;
}
size_t lltd_port_get_ssid(void *iface_ctx, void *dst, size_t dst_len) {
    V_CTX(iface_ctx);
    vcfg *c = (vcfg *)iface_ctx;
    return v_copy_name(dst, dst_len, c->ssid, c->ssid_len, c->ssid_ret_full);
}
int lltd_port_get_wifi_max_rate_0_5mbps(void *iface_ctx, uint16_t *out) {
    V_CTX(iface_ctx);
    vcfg *c = (vcfg *)iface_ctx; if (c->rate_fail) return -1; *out = c->rate; return 0;
}
int lltd_port_get_wifi_rssi_dbm(void *iface_ctx, int8_t *out) {
    V_CTX(iface_ctx);
    vcfg *c = (vcfg *)iface_ctx; if (c->rssi_fail) return -1; *out = c->rssi; return 0;
}
int lltd_port_get_wifi_phy_medium(void *iface_ctx, uint32_t *out) {
    V_CTX(iface_ctx);
    vcfg *c = (vcfg *)iface_ctx; if (c->phy_fail) return -1; *out = c->phy; return 0;
}

void lltd_port_log_debug(const char *fmt, ...) { (void)fmt; }
void lltd_port_log_warning(const char *fmt, ...) { (void)fmt; }

#endif /* VPORT_C */
