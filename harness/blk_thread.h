/* C17 (thread clause) — the second interface's receive thread modelled as an interrupt:
 * goto-instrument --isr thread_b inserts "thread B may run here" before every access of the real
 * code to the shared objects thread_b touches (today: g_iface_states). B's call is atomic inside
 * A's call (one pre-emption = two context switches). */
static uint8_t *RXB;
static int b_ran;
void thread_b(void) {
    if (b_ran) return;
    b_ran = 1;
    g_iface_states = g_iface_states;       /* names the shared object for --isr */
    parseFrame(RXB, &g_cfgB);
}

static unsigned count_records(void *ctx) {
    unsigned n = 0; lltd_iface_state *c = g_iface_states;
    for (int i = 0; i < 4; i++) { if (c) { if (c->iface_ctx == ctx) n++; c = c->next; } }
    return n;
}

void h_preempt(void) {
    load_inputs();
    setup_platform(0);
    g_cfgB = in.cfg2; constrain_cfg(&g_cfgB, 0);
#ifdef MTU_FIXED
    g_cfgB.mtu = MTU_FIXED;
#endif
    g_class = CL_NONE;
    /* frames without a transmitting handler: Probe/Train, Reset or anything unhandled */
    V_ASSUME(!(is_disc_tos(in.frame[F_TOS]) && (in.frame[F_OP] == 0 || in.frame[F_OP] == 2 || in.frame[F_OP] == 6 || in.frame[F_OP] == 0x0B)));
    V_ASSUME(!(is_disc_tos(in.frame2[F_TOS]) && (in.frame2[F_OP] == 0 || in.frame2[F_OP] == 2 || in.frame2[F_OP] == 6 || in.frame2[F_OP] == 0x0B)));
#ifdef PRE_REGISTERED
    (void)build_state(&g_cfgA, &in.st);
    (void)build_state(&g_cfgB, &in.st2);
#endif
    RX = make_frame(in.frame, g_cfgA.mtu);
    RXB = make_frame(in.frame2, g_cfgB.mtu);
    b_ran = 0;
    parseFrame(RX, &g_cfgA);
    thread_b();                            /* if it was not scheduled inside A's call, it runs afterwards */
    V_ASSERT(count_records(&g_cfgA) == 1 && count_records(&g_cfgB) == 1, "C17: both interfaces keep exactly one record however their receive threads interleave (no lost state)");
    lltd_iface_state *a = find_state(&g_cfgA), *b = find_state(&g_cfgB);
    if (a && b) {
        bool ra = is_disc_tos(in.frame[F_TOS]) && in.frame[F_OP] == opcode_reset;
        bool rb = is_disc_tos(in.frame2[F_TOS]) && in.frame2[F_OP] == opcode_reset;
#ifdef PRE_REGISTERED
        V_ASSERT(a->mapper_known == (ra ? 0 : in.st.known) && b->mapper_known == (rb ? 0 : in.st2.known), "C17: each interface's mapper state is what its own frame produces alone");
#else
        V_ASSERT(a->mapper_known == 0 && b->mapper_known == 0, "C17: each interface's mapper state is what its own frame produces alone");
        (void)ra; (void)rb;
#endif
    }
    V_WITNESS("h_preempt end");
}
