/* C17 (thread clause) — the second interface's receive thread modelled as an interrupt:
 * goto-instrument --isr thread_b inserts "thread B may run here" before every access of the real
 * code to the shared objects thread_b touches (today: g_iface_states). B's call is atomic inside
 * A's call (one pre-emption = two context switches). */
static uint8_t *RXB;
static int b_ran;
void thread_b(void) {
    if (b_ran) return;
    b_ran = 1;
    g_iface_states = g_iface_states;       /* names the shared object for --isr */
    parseFrame(RXB, &g_cfgB);
}

static unsigned count_records(void *ctx) {
    unsigned n = 0; lltd_iface_state *c = g_iface_states;
    for (int i = 0; i < 4; i++) { if (c) { if (c->iface_ctx == ctx) n++; c = c->next; } }
    return n;
}

void h_preempt(void) {
    load_inputs();
    setup_platform(0);
    g_cfgB = in.cfg2; constrain_cfg(&g_cfgB, 0);
#ifdef MTU_FIXED
    g_cfgB.mtu = MTU_FIXED;
#endif
    g_class = CL_NONE;
    /* frames without a transmitting handler: Probe/Train, Reset or anything unhandled */
    V_ASSUME(!(is_disc_tos(in.frame[F_TOS]) && (in.frame[F_OP] == 0 || in.frame[F_OP] == 2 || in.frame[F_OP] == 6 || in.frame[F_OP] == 0x0B)));
    V_ASSUME(!(is_disc_tos(in.frame2[F_TOS]) && (in.frame2[F_OP] == 0 || in.frame2[F_OP] == 2 || in.frame2[F_OP] == 6 || in.frame2[F_OP] == 0x0B)));
#ifdef PRE_REGISTERED
    (void)build_state(&g_cfgA, &in.st);
    (void)build_state(&g_cfgB, &in.st2);
#endif
    RX = make_frame(in.frame, g_cfgA.mtu);
    RXB = make_frame(in.frame2, g_cfgB.mtu);
    b_ran = 0;
    parseFrame(RX, &g_cfgA);
    thread_b();                            /* if it was not scheduled inside A's call, it runs afterwards */
    V_ASSERT(count_records(&g_cfgA) == 1 && count_records(&g_cfgB) == 1, "C17: both interfaces keep exactly one record however their receive threads interleave (no lost state)");
    lltd_iface_state *a = find_state(&g_cfgA), *b = find_state(&g_cfgB);
    /* reference: the same two frames handled one after the other (no pre-emption) in a second world */
    uint8_t ka = a ? a->mapper_known : 2, kb = b ? b->mapper_known : 2;
    uint8_t ra[6] = {0}, rb[6] = {0}; uint32_t ca = a ? a->see_list_count : 0, cb = b ? b->see_list_count : 0;
    if (a) mac6_set(ra, a->mapper_real.a);
    if (b) mac6_set(rb, b->mapper_real.a);
    b_ran = 1;                              /* thread B no longer pre-empts */
    g_iface_states = 0;
#ifdef PRE_REGISTERED
    (void)build_state(&g_cfgA, &in.st);
    (void)build_state(&g_cfgB, &in.st2);
#endif
    uint8_t *rx2 = make_frame(in.frame, g_cfgA.mtu), *rxb2 = make_frame(in.frame2, g_cfgB.mtu);
    parseFrame(rx2, &g_cfgA);
    parseFrame(rxb2, &g_cfgB);
    lltd_iface_state *a2 = find_state(&g_cfgA), *b2 = find_state(&g_cfgB);
    if (a && b && a2 && b2) {
        V_ASSERT(ka == a2->mapper_known && kb == b2->mapper_known && (!ka || mac6_eq(ra, a2->mapper_real.a)) && (!kb || mac6_eq(rb, b2->mapper_real.a)) &&
                 ca == a2->see_list_count && cb == b2->see_list_count,
                 "C17: each interface ends in the state its own frame produces when the two frames are handled one after the other");
    }
    V_WITNESS("h_preempt end");
}


/* C17 (thread clause, second model): interface B's thread emits a Probe/Train+ACK (real sendProbeMsg) while
 * interface A's thread is inside one of the platform calls of its own sendProbeMsg (the PREEMPT_AT-th:
 * allocation, address getter, the descriptor's pause, a transmit, the release). Each interface must still
 * transmit exactly its own frames. Catches state shared between threads that is not per-interface
 * (e.g. a static scratch buffer). */
static unsigned il_sends[2];
static lltd_iface_state *il_stB;
static ethernet_address_t il_src[2], il_dst[2]; static uint8_t il_pause[2], il_kind[2];

static void il_hook(void) { (void)sendProbeMsg(il_src[1], il_dst[1], il_stB, &g_cfgB, il_pause[1], il_kind[1], true); }
#if defined(V_PREEMPT) && !defined(REL_CLASS)
static void v_preempt_target(void) { il_hook(); }
#endif

static uint8_t il_ref[2][2][32]; static size_t il_reflen[2][2]; static unsigned il_refn[2]; static int il_phase;
static void oracle_il(void *ctx, const uint8_t *f, size_t n) {
    int w = (ctx == (void *)&g_cfgB) ? 1 : 0;
    V_ASSERT(ctx == (void *)&g_cfgA || ctx == (void *)&g_cfgB, "C17: frames leave on a known interface");
    unsigned s = il_sends[w]++;
    if (s >= 2) { V_ASSERT(il_phase == 1, "C17: no extra frames on an interface because another interface was served meanwhile"); return; }
    if (il_phase == 1) {                   /* reference: each interface's emission alone */
        il_reflen[w][s] = n; il_refn[w] = s + 1;
        if (n == 32) memcpy(il_ref[w][s], f, 32);
    } else {
        V_ASSERT(s < il_refn[w] && n == il_reflen[w][s], "C17: same frames on each interface as when it is served alone (count/length)");
        if (n == 32 && il_reflen[w][s] == 32) {
            bool same = true;
            for (int k = 0; k < 32; k++) if (f[k] != il_ref[w][s][k]) same = false;
            V_ASSERT(same, "C17: the frames an interface transmits are byte-identical to those it transmits when served alone, although the other interface's thread ran inside one of its platform calls (no cross-talk through shared state)");
        }
    }
}

void h_interleave(void) {
    load_inputs();
    setup_platform(0);
    g_cfgB = in.cfg2; constrain_cfg(&g_cfgB, 0);
#ifdef MTU_FIXED
    g_cfgB.mtu = MTU_FIXED;
#endif
    g_class = CL_IL;
    lltd_iface_state *sa = build_state(&g_cfgA, &in.st);
    il_stB = build_state(&g_cfgB, &in.st2);
    mac6_set(il_src[0].a, in.frame + 0); mac6_set(il_dst[0].a, in.frame + 6); il_pause[0] = in.frame[12]; il_kind[0] = in.frame[13] & 1;
    mac6_set(il_src[1].a, in.frame2 + 0); mac6_set(il_dst[1].a, in.frame2 + 6); il_pause[1] = in.frame2[12]; il_kind[1] = in.frame2[13] & 1;
#ifndef PREEMPT_AT
#define PREEMPT_AT 0
#endif
    /* phase 1: each interface alone (reference frames) */
    il_phase = 1;
    (void)sendProbeMsg(il_src[0], il_dst[0], sa, &g_cfgA, il_pause[0], il_kind[0], true);
    il_hook();
    il_sends[0] = il_sends[1] = 0;
    il_phase = 2;
#ifdef V_PREEMPT
    g_portcalls = 0; g_preempt_at = PREEMPT_AT; g_preempt_armed = 1;          /* concrete per query: one inlined copy of B's call */
#endif
    (void)sendProbeMsg(il_src[0], il_dst[0], sa, &g_cfgA, il_pause[0], il_kind[0], true);
#ifdef V_PREEMPT
    if (g_preempt_armed) { g_preempt_armed = 0; il_hook(); }                  /* not scheduled inside: runs afterwards */
#else
    il_hook();
#endif
    V_ASSERT(il_sends[0] == il_refn[0] && il_sends[1] == il_refn[1], "C17: each interface transmits as many frames as when served alone, however the two threads interleave at platform calls");
    V_WITNESS("h_interleave end");
}
