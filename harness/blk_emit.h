/* Emit class (C06, C01, C02, C10 sender half).
 * Decomposition (assume/guarantee over real code on both sides):
 *   h_emit_loop : real parseFrame + parseEmit, sendProbeMsg replaced by a recording stub
 *   h_emit_send : real sendProbeMsg alone with arbitrary arguments
 *   h_emit_full : undecomposed path, descriptor count bounded by NMAX_FULL */
#ifndef NMAX_FULL
#define NMAX_FULL 3
#endif

static unsigned e_n;            /* declared descriptor count of the Emit under test */
static unsigned e_calls;
static bool e_in_full;

static const uint8_t *desc_at(unsigned i) { return in.frame + 34 + 14 * i; }
static uint8_t e_dj[14];        /* content of descriptor in.j, tied to the frame image by assumptions at constant indices */

/* --- recording stub for sendProbeMsg (installed with --replace-calls) */
bool rec_sendProbeMsg(ethernet_address_t src, ethernet_address_t dst, lltd_iface_state *st, void *iface_ctx, int pause_ms, uint8_t type, bool ack) {
    unsigned k = e_calls++;
    unsigned maxd = EMIT_MAXD(g_cfgA.mtu);
    V_ASSERT(k < maxd, "C06: never more Probe/Train frames than a maximum-size Emit can carry");
    V_ASSERT(st == ST && iface_ctx == (void *)&g_cfgA, "C17: emission uses the record and interface of the receiving context");
#ifdef EMIT_VALID_KINDS
    if (e_n <= maxd && k < maxd && k == in.j) {      /* in.j: universally quantified descriptor index (one symbolic read) */
        const uint8_t *d = e_dj;
        V_ASSERT(type == d[0], "C06: descriptor order kept - kind of the k-th emission is the k-th descriptor's");
        V_ASSERT(pause_ms == (int)d[1], "C06: k-th emission waits the k-th descriptor's pause");
        V_ASSERT(mac6_eq(src.a, d + 2) && mac6_eq(dst.a, d + 8), "C06: k-th emission uses the k-th descriptor's source and destination");
    }
    if (e_n <= maxd) V_ASSERT(ack == (k + 1 == e_n), "C06: acknowledgement requested exactly on the last descriptor");
#else
    (void)src; (void)dst; (void)pause_ms; (void)type; (void)ack;
#endif
    V_WITNESS("sendProbeMsg stub called");
    return true;
}

void h_emit_loop(void) {
    common_setup(0);
    g_class = CL_NONE;
    V_ASSUME(in.frame[F_TOS] == 0 && in.frame[F_OP] == opcode_emit);
    V_ASSUME(from_mapper_or_none());
    unsigned maxd = EMIT_MAXD(g_cfgA.mtu);
    e_n = be16(in.frame + 32);
#ifdef EMIT_VALID_KINDS
    for (unsigned i = 0; i < EMIT_MAXD(FRAME_N); i++) V_ASSUME(in.frame[34 + 14 * i] <= 1);
#endif
    for (unsigned i = 0; i < EMIT_MAXD(FRAME_N); i++) {
        if (i == in.j) {
            for (unsigned b = 0; b < 14; b++) { e_dj[b] = in.frame2[b]; V_ASSUME(in.frame[34 + 14 * i + b] == in.frame2[b]); }
        }
    }
    parseFrame(RX, &g_cfgA);
#ifdef EMIT_VALID_KINDS
    V_ASSERT(e_calls == (e_n <= maxd ? e_n : e_calls), "C06: exactly one emission per descriptor that fits");
#endif
    V_ASSERT(e_calls <= maxd, "C06: a declared count larger than the frame can carry never yields more emissions than a maximum-size Emit");
    V_ASSERT(ST->mapper_seq == be16(in.frame + F_SEQ), "C06: the Emit's sequence number is remembered for the ACK");
    V_ASSERT(ST->mapper_known == 1 && mac6_eq(ST->mapper_real.a, in.frame + F_RSRC), "C03,C05: the Emit's sender is (or stays) the active mapper");
    assert_mapp_step(ST);

    V_WITNESS("h_emit_loop end");
}

/* --- transmit oracle used by h_emit_send / h_emit_full */
static ethernet_address_t s_src, s_dst; static int s_pause; static uint8_t s_type; static bool s_ack;
static uint8_t s_mreal[6], s_mapp[6]; static uint16_t s_seq;

static void check_probe_frame(const vcfg *c, const uint8_t *f, size_t n, const uint8_t *src, const uint8_t *dst, uint8_t kind) {
    V_ASSERT(n == 32, "C02: Probe/Train is exactly the 32-byte base header");
    V_ASSERT(f[F_OP] == (kind == 1 ? 4 : 3), "C06: requested kind - Probe for 1, Train for 0");
    V_ASSERT(f[F_TOS] == 0, "C02: Probe/Train belongs to topology discovery");
    V_ASSERT(mac6_eq(f + F_EDST, dst) && mac6_eq(f + F_ESRC, src), "C06: descriptor's source and destination as Ethernet addresses");
    V_ASSERT(mac6_eq(f + F_RSRC, c->mac), "C06: own address as real source of an emitted Probe/Train");
    V_ASSERT(mac6_eq(f + F_RDST, dst), "C10: emitted Probe/Train names the destination station as real destination, so a peer responder records it");
    V_ASSERT(f[F_SEQ] == 0 && f[F_SEQ + 1] == 0, "C02: Probe/Train carries no sequence number");
}
static void check_ack_frame(const vcfg *c, const uint8_t *f, size_t n, const uint8_t *mreal, const uint8_t *mapp, const uint8_t *alt, unsigned seq) {
    V_ASSERT(n == 32, "C02: ACK is exactly the 32-byte base header");
    V_ASSERT(f[F_OP] == 5 && f[F_TOS] == 0, "C06: emission is followed by an ACK of topology discovery");
    V_ASSERT(mac6_eq(f + F_RDST, mreal), "C06: ACK addressed to the mapper");
    V_ASSERT(mac6_eq(f + F_EDST, mapp) || mac6_eq(f + F_EDST, mreal) || mac6_eq(f + F_EDST, alt), "C06: ACK travels to the mapper's (apparent or real) address");
    V_ASSERT(mac6_eq(f + F_ESRC, c->mac) && mac6_eq(f + F_RSRC, c->mac), "C06: ACK sourced from own address");
    V_ASSERT(be16(f + F_SEQ) == seq, "C06: ACK bears the Emit's sequence number");
}

static void oracle_emit(const vcfg *c, const uint8_t *f, size_t n) {
    unsigned s = g_nsend - 1;
    if (!e_in_full) {
        /* single sendProbeMsg call */
        V_ASSERT(s <= 1, "C06: one Probe/Train and at most one ACK per descriptor");
        if (s == 0) {
            V_ASSERT(g_nsleep == 1 && g_nevent == 1 && g_last_sleep == (uint32_t)s_pause, "C06: the descriptor's pause is waited before its frame is sent");
            check_probe_frame(c, f, n, s_src.a, s_dst.a, s_type);
        } else {
            V_ASSERT(s_ack, "C06: ACK only after the last descriptor");
            check_ack_frame(c, f, n, s_mreal, s_mapp, s_mreal, s_seq);
        }
    } else {
        V_ASSERT(s <= e_n, "C02,C06: at most one frame per descriptor plus one acknowledgement");
        if (s < e_n) {
            for (unsigned i = 0; i < NMAX_FULL; i++) {       /* constant indices into the frame image */
                if (i == s) {
                    const uint8_t *d = desc_at(i);
                    V_ASSERT(g_nsleep == s + 1 && g_last_sleep == (uint32_t)d[1], "C06: each Probe/Train is sent after waiting its descriptor's pause");
                    check_probe_frame(c, f, n, d + 2, d + 8, d[0]);
                }
            }
        } else {
            const uint8_t *mapp = in.st.known ? in.st.mapp : in.frame + F_ESRC;
            check_ack_frame(c, f, n, in.frame + F_RSRC, mapp, in.frame + F_ESRC, be16(in.frame + F_SEQ));
        }
    }
}

struct emit_send_in { uint8_t src[6], dst[6]; uint8_t pause; uint8_t type; uint8_t ack; };

void h_emit_send(void) {
#ifdef FAULTS_SEND
    common_setup(1);
    g_class = CL_ANY;
#else
    common_setup(0);
    g_class = CL_EMIT;
#endif
    e_in_full = false;
    /* arguments drawn from the (otherwise unused) frame image */
    mac6_set(s_src.a, in.frame + 0); mac6_set(s_dst.a, in.frame + 6);
    s_pause = in.frame[12]; s_type = in.frame[13] & 1; s_ack = in.frame[14] & 1;
    mac6_set(s_mreal, in.st.mreal); mac6_set(s_mapp, in.st.mapp); s_seq = in.st.seq;
    long live0 = g_live_blocks;
    bool ok = sendProbeMsg(s_src, s_dst, ST, &g_cfgA, s_pause, s_type, s_ack);
#ifndef FAULTS_SEND
    V_ASSERT(ok, "C06: emission succeeds when the platform transmits");
    V_ASSERT(g_nsend == (s_ack ? 2u : 1u), "C06: one Probe/Train per descriptor, plus exactly one ACK after the last");
    V_ASSERT(g_nsleep == 1, "C06: exactly one pause per descriptor");
#else
    (void)ok;
    V_ASSERT(g_nsend <= 2, "C18: at most Probe + ACK attempted under faults");
#endif
    V_ASSERT(g_live_blocks == live0, "C18,C19: Probe/ACK buffer released on every path");
    V_WITNESS("h_emit_send end");
}

void h_emit_full(void) {
    common_setup(0);
    g_class = CL_EMIT;
    e_in_full = true;
    V_ASSUME(in.frame[F_TOS] == 0 && in.frame[F_OP] == opcode_emit);
    V_ASSUME(from_mapper_or_none());
    e_n = be16(in.frame + 32);
    V_ASSUME(e_n >= 1 && e_n <= NMAX_FULL);
    for (unsigned i = 0; i < NMAX_FULL; i++) V_ASSUME(in.frame[34 + 14 * i] <= 1);
    long live0 = g_live_blocks;
    parseFrame(RX, &g_cfgA);
    V_ASSERT(g_nsend == e_n + 1, "C06: n Probe/Train frames followed by exactly one ACK");
    V_ASSERT(g_nsleep == e_n, "C06: one pause per descriptor");
    V_ASSERT(g_live_blocks == live0, "C19: every emission buffer released");
    V_ASSERT(ST->see_list_count == in.st.n, "C07: emitting does not touch recorded observations");
    V_WITNESS("h_emit_full end");
}
