#ifdef VERIF_CBMC
#pragma CPROVER check pop
#endif
