/* Relational (two-world) step harness.
 *   REL_MODE 0  determinism (C02): identical record, identical frame, independent fresh memory
 *   REL_MODE 1  C09 induction step: records equal except stale mapper addresses while no mapper is active
 *   REL_MODE 2  C09 direct: (arbitrary record -> topology Reset -> frame) vs (freshly started responder -> frame)
 *   REL_MODE 3  C17 sequential isolation: a second interface's record registered (world 1) or absent (world 2)
 * Outputs are compared send by send: length and the byte at a universally quantified index in.j
 * (no frame is ever copied). Post-records are compared field by field. */
#ifndef REL_MODE
#define REL_MODE 0
#endif
#ifndef REL_MAXSEND
#define REL_MAXSEND 2
#endif
static int rel_phase;
static size_t rel_len[REL_MAXSEND]; static uint8_t rel_byte[REL_MAXSEND]; static bool rel_has[REL_MAXSEND];
static uint32_t rel_sleep[REL_MAXSEND + 1];
static size_t rel_mc_off[REL_MAXSEND], rel_mc_n[REL_MAXSEND]; static unsigned rel_mc_calls[REL_MAXSEND];
static const uint8_t *rel_base(void);

static unsigned rel_sA;            /* sends on interface A in the current world */
static void oracle_rel(const vcfg *c, const uint8_t *f, size_t n) {
#if REL_MODE == 4
    if (c != &g_cfgA) return;      /* the other interface's frames are its own business (checked by its own run) */
#endif
    unsigned s = rel_sA++;
    V_ASSERT(s < REL_MAXSEND, "C02: number of frames per request within the class bound");
    if (s >= REL_MAXSEND) return;
    size_t mc_off = 0, mc_n = 0; unsigned mc_calls = 0;
#ifdef V_MEMCPY_RECORD
    mc_calls = g_mc_calls; mc_n = g_mc_n;
    if (g_mc_calls) mc_off = (size_t)((const uint8_t *)g_mc_src - rel_base());
#endif
    if (rel_phase == 1) {
        rel_len[s] = n; rel_has[s] = in.j < n; rel_byte[s] = (in.j < n) ? f[in.j] : 0;
        rel_mc_off[s] = mc_off; rel_mc_n[s] = mc_n; rel_mc_calls[s] = mc_calls;
    } else {
        V_ASSERT(rel_len[s] == n, "C02,C09,C17: same frame length in both worlds");
#ifdef V_MEMCPY_RECORD
        /* large-property payload: the data objects of the two worlds are distinct platform objects (same bytes by assumption);
         * header and length field are compared byte-wise, the payload through its source range */
        if (in.j < n && in.j < 34)
#else
        if (in.j < n)
#endif
            V_ASSERT(rel_has[s] && rel_byte[s] == f[in.j], "C02,C04,C09,C17: transmitted bytes identical in both worlds (every byte determined by frames received and configuration)");
#if REL_MODE != 4     /* with two interfaces copying payloads the global copy record cannot be attributed; header and length are still compared */
        V_ASSERT(rel_mc_calls[s] == mc_calls && rel_mc_n[s] == mc_n && rel_mc_off[s] == mc_off, "C02,C09,C17: same payload source range in both worlds");
#endif
    }
}

static void world_counters_reset(void) {
    rel_sA = 0;
    g_nsend = 0; g_nsleep = 0; g_nevent = 0; g_nmalloc = 0; g_nfree = 0;
#ifdef V_MEMCPY_RECORD
    g_mc_calls = 0; g_mc_n = 0; g_mc_src = 0; g_mc_dst = 0;
#endif
}

static uint8_t rel_qtype; static lltd_iface_state *rel_st; static bool rel_cached;
static const uint8_t *rel_base(void) {
    if (rel_qtype == 0x0E) return (rel_st && rel_st->small_icon) ? (const uint8_t *)rel_st->small_icon : g_last_icon;   /* the icon is cached in the record before it is sent */
    if (rel_qtype == 0x11) return g_last_name;
    return g_last_hwid_dst;
}

static void rel_class_assume(void) {
    uint8_t t = in.frame[F_TOS], o = in.frame[F_OP];
#if REL_CLASS == 0
    V_ASSUME(is_disc_tos(t) && o == 0);
#elif REL_CLASS == 2
    V_ASSUME(t == 0 && o == 2);
    V_ASSUME(be16(in.frame + 32) <= REL_MAXSEND - 1);
#elif REL_CLASS == 3
    V_ASSUME(t == 0 && (o == 3 || o == 4));
#elif REL_CLASS == 6
    V_ASSUME(t == 0 && o == 6);
#elif REL_CLASS == 8
    V_ASSUME(is_disc_tos(t) && o == 8);
#elif REL_CLASS == 11
    V_ASSUME(is_disc_tos(t) && o == 0x0B);
#ifdef QTYPE
    in.frame[32] = QTYPE;
#endif
#else
    V_ASSUME(!handled_pair(t, o));
#endif
}

#if REL_MODE == 4
/* handler-level calls with explicit records (keeps the two interfaces' records apart for the solver) */
static uint8_t *rel_rxB; static lltd_iface_state *rel_stB;
static void rel_call(uint8_t *rx, lltd_iface_state *st, void *ctx) {
#if REL_CLASS == 0
    answerHello(rx, st, ctx);
#elif REL_CLASS == 2
    parseEmit(rx, st, ctx);
#elif REL_CLASS == 3
    parseProbe(rx, st, ctx);
#elif REL_CLASS == 6
    parseQuery(rx, st, ctx);
#elif REL_CLASS == 11
    parseQueryLargeTlv(rx, st, ctx);
#else
    (void)rx; (void)st; (void)ctx;
#endif
}
#ifdef V_PREEMPT
static void v_preempt_target(void) { rel_call(rel_rxB, rel_stB, &g_cfgB); }
#endif
#endif

struct post { uint8_t known; uint8_t mreal[6], mapp[6]; uint16_t seq, gt, gq; bool icon; size_t icon_size; uint32_t count; struct snap sn; unsigned nsend, nsleep; long live; };

static void take_post(lltd_iface_state *st, struct post *p) {
    p->known = st->mapper_known; mac6_set(p->mreal, st->mapper_real.a); mac6_set(p->mapp, st->mapper_apparent.a);
    p->seq = st->mapper_seq; p->gt = st->mapper_gen_topology; p->gq = st->mapper_gen_quick;
    p->icon = st->small_icon != 0; p->icon_size = st->small_icon_size; p->count = st->see_list_count;
    snapshot_list(st, &p->sn);
    p->nsend = g_nsend; p->nsleep = g_nsleep;
}

void h_rel(void) {
    load_inputs();
    setup_platform(0);
#ifdef HOSTLEN
    g_plat.hostname_len = HOSTLEN; g_cfgA.ssid_len = SSIDLEN;
#endif
    g_class = CL_REL;
    rel_class_assume();
    rel_qtype = in.frame[32];
    V_ASSUME((g_plat.hwid_len & 1) == 0);
    struct post p1, p2;

    /* ---------------- world 1 */
    rel_phase = 1;
#if REL_MODE == 3
    g_cfgB = in.cfg2; constrain_cfg(&g_cfgB, 0);
#ifdef MTU_FIXED
    g_cfgB.mtu = MTU_FIXED;
#endif
    if (in.sel & 1) (void)build_state(&g_cfgB, &in.st2);        /* other interface registered before ... */
#endif
    lltd_iface_state *s1 = build_state(&g_cfgA, &in.st);
#if REL_MODE == 3
    if (!(in.sel & 1)) (void)build_state(&g_cfgB, &in.st2);     /* ... or after this one */
    lltd_iface_state *sb = find_state(&g_cfgB);
    /* the other interface may be holding arbitrarily many observations (counter only: stands for a long un-queried record) */
    if (in.sel & 2) sb->see_list_count = sb->see_list_count + 5000u;
    struct snap snb0; snapshot_list(sb, &snb0);
    lltd_iface_state sb_before = *sb;
#endif
#if REL_MODE == 3
    g_ctx_guard = (void *)&g_cfgA;
#endif
    uint8_t *rx1 = make_frame(in.frame, g_cfgA.mtu);
#if REL_MODE == 2
    {   /* history . Reset */
        uint8_t *rr = make_frame(in.frame2, g_cfgA.mtu);
        rr[F_TOS] = 0; rr[F_OP] = opcode_reset;
        g_class = CL_NONE;
        parseFrame(rr, &g_cfgA);
        g_class = CL_REL;
        world_counters_reset();
    }
#endif
    rel_st = s1; rel_cached = (s1->small_icon != 0);
#if REL_MODE == 4
    rel_call(rx1, s1, &g_cfgA);                /* world 1: interface A alone */
#else
    parseFrame(rx1, &g_cfgA);
#endif
    take_post(s1, &p1);
    p1.nsend = rel_sA;
#if REL_MODE == 3
    {   /* the other interface's record is untouched */
        struct snap snb1; snapshot_list(sb, &snb1);
        V_ASSERT(sb->iface_ctx == sb_before.iface_ctx && sb->see_list == sb_before.see_list && sb->see_list_count == sb_before.see_list_count &&
                 sb->mapper_known == sb_before.mapper_known && mac6_eq(sb->mapper_real.a, sb_before.mapper_real.a) && mac6_eq(sb->mapper_apparent.a, sb_before.mapper_apparent.a) &&
                 sb->mapper_seq == sb_before.mapper_seq && sb->mapper_gen_topology == sb_before.mapper_gen_topology && sb->mapper_gen_quick == sb_before.mapper_gen_quick &&
                 sb->small_icon == sb_before.small_icon && sb->small_icon_size == sb_before.small_icon_size, "C17: a frame on one interface leaves the other interface's record untouched");
        V_ASSERT(snb1.n == snb0.n, "C17: the other interface's observations are untouched");
        for (unsigned i = 0; i < KP; i++) if (i < snb0.n) V_ASSERT(snap_has(&snb1, &snb0.node[i]), "C17: the other interface's observations keep their content");
    }
#endif

    /* ---------------- world 2: separate registry, independent fresh memory */
    g_iface_states = 0;
    world_counters_reset();
    rel_phase = 2;
    uint8_t *rx2 = make_frame(in.frame, g_cfgA.mtu);
#if REL_MODE == 2
    /* freshly started responder: the record is created by the core on the first frame */
    rel_cached = false; rel_st = 0;          /* no record yet: a fetched icon is identified by the port's last hand-out */
    parseFrame(rx2, &g_cfgA);
    lltd_iface_state *s2 = find_state(&g_cfgA);
    V_ASSERT(s2 != 0, "C09: a fresh responder creates its record on the first frame");
    rel_st = s2;
#else
    struct st_in st2 = in.st;
#if REL_MODE == 1
    if (!in.st.known) { mac6_set(st2.mreal, in.st2.mreal); mac6_set(st2.mapp, in.st2.mapp); }   /* stale addresses differ */
    /* sequence and generation numbers are dead at the start of every request (each handler that uses one stores the
     * request's own value first): the relation lets them differ, so a change that makes a stale value live is exposed */
#ifndef REL_SEQ_EQUAL      /* strong relation (REL_SEQ_EQUAL): used when the Reset demonstrably zeroes these fields */
    st2.seq = in.st2.seq; st2.gen_t = in.st2.gen_t; st2.gen_q = in.st2.gen_q;
#endif
#endif
    lltd_iface_state *s2 = build_state(&g_cfgA, &st2);
    rel_st = s2; rel_cached = (s2->small_icon != 0);
#if REL_MODE == 4
    /* world 2: interface B's thread handles a frame of the same class inside A's PREEMPT_AT-th platform call */
    g_cfgB = in.cfg2; constrain_cfg(&g_cfgB, 0);
#ifdef MTU_FIXED
    g_cfgB.mtu = MTU_FIXED;
#endif
    g_two_ifaces = true;
    rel_stB = build_state(&g_cfgB, &in.st2);
    rel_rxB = make_frame(in.frame2, g_cfgB.mtu);
    rel_rxB[F_TOS] = in.frame[F_TOS]; rel_rxB[F_OP] = in.frame[F_OP];
#if REL_CLASS == 11 && defined(QTYPE)
    rel_rxB[32] = QTYPE;
#endif
#if REL_CLASS == 2
    rel_rxB[32] = 0; rel_rxB[33] = 1;         /* one descriptor on B */
#endif
#ifdef V_PREEMPT
    g_portcalls = 0; g_preempt_at = PREEMPT_AT; g_preempt_armed = 1;
#endif
    rel_call(rx2, s2, &g_cfgA);
#else
    parseFrame(rx2, &g_cfgA);
#endif
#endif
    take_post(s2, &p2);
    p2.nsend = rel_sA;

    V_ASSERT(p1.nsend == p2.nsend, "C02,C09,C17: same number of frames transmitted in both worlds");
#if REL_MODE != 4
    V_ASSERT(p1.nsleep == p2.nsleep, "C09: same pauses in both worlds");
#endif
    /* equivalence of the post-records (lets single steps stand for arbitrary continuations) */
    V_ASSERT(p1.known == p2.known, "C09,C17: same mapper status afterwards");
    if (p1.known) V_ASSERT(mac6_eq(p1.mreal, p2.mreal) && mac6_eq(p1.mapp, p2.mapp), "C09,C17: same active mapper afterwards");
#if REL_MODE == 0 || REL_MODE == 3 || defined(REL_SEQ_EQUAL)
    V_ASSERT(p1.seq == p2.seq && p1.gt == p2.gt && p1.gq == p2.gq, "C02,C09,C17: same sequence and generation numbers afterwards");
#endif
    V_ASSERT(p1.icon == p2.icon && p1.icon_size == p2.icon_size, "C09,C17: same icon cache status afterwards");
    V_ASSERT(p1.count == p2.count && p1.sn.n == p2.sn.n, "C09,C17: same number of observations afterwards");
    for (unsigned i = 0; i < KP; i++) {
        if (i < p1.sn.n) V_ASSERT(p1.sn.node[i].type == p2.sn.node[i].type && mac6_eq(p1.sn.node[i].rs, p2.sn.node[i].rs) && mac6_eq(p1.sn.node[i].es, p2.sn.node[i].es) && mac6_eq(p1.sn.node[i].ed, p2.sn.node[i].ed),
                                   "C09,C17: same observations afterwards");
    }
    V_WITNESS("h_rel end");
}
