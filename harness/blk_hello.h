static void oracle_hello(const vcfg *c, const uint8_t *f, size_t n) { (void)c; (void)f; (void)n; }
