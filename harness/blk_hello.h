/* Discover class: Hello oracle (C03 header rules, C04 property list, C02 structure).
 * Hostname and SSID source lengths are compile-time constants of the query
 * (HOSTLEN, SSIDLEN in 0..40; the driver sweeps them); everything else is symbolic. */
#ifndef HOSTLEN
#define HOSTLEN 0
#endif
#ifndef SSIDLEN
#define SSIDLEN 0
#endif
#define HL_EFF ((HOSTLEN) > 32 ? 32 : (HOSTLEN))
#define SL_EFF ((SSIDLEN) > 32 ? 32 : (SSIDLEN))

static bool g_hello_seen;
#ifdef HELLO_GENERIC
static void oracle_hello_generic_chain(const vcfg *c, const uint8_t *f, size_t n);
#endif

/* expected value byte k of a big-endian 32-bit number */
static uint8_t be32_byte(uint32_t v, unsigned k) { return (uint8_t)(v >> (24 - 8 * k)); }

static void oracle_hello(const vcfg *c, const uint8_t *f, size_t n) {
    g_hello_seen = true;
    V_ASSERT(g_nsend == 1, "C02,C03: exactly one Hello per accepted Discover");
    /* ---- C03: base header + Hello header */
    V_ASSERT(f[F_OP] == 1, "C03: an accepted Discover is answered by a Hello");
    V_ASSERT(mac6_is_bcast(f + F_EDST) && mac6_is_bcast(f + F_RDST), "C03: Hello is broadcast at Ethernet and LLTD level");
    V_ASSERT(mac6_eq(f + F_ESRC, c->mac) && mac6_eq(f + F_RSRC, c->mac), "C03: Hello sourced from the interface's own address");
    V_ASSERT(f[F_TOS] == in.frame[F_TOS], "C03: Hello has the same service type as the Discover");
    V_ASSERT(f[F_SEQ] == 0 && f[F_SEQ + 1] == 0, "C03: Hello sequence number is zero");
    V_ASSERT(n >= 46, "C02: Hello carries its Hello header");
    V_ASSERT(f[32] == in.frame[32] && f[33] == in.frame[33], "C03: Hello carries the generation number of that very Discover");
    V_ASSERT(mac6_eq(f + 34, in.frame + F_RSRC), "C03: Hello names the Discover's real source as current mapper");
    V_ASSERT(mac6_eq(f + 40, in.frame + F_ESRC), "C03: Hello names the Discover's Ethernet source as apparent mapper");

#ifdef HELLO_GENERIC
    oracle_hello_generic_chain(c, f, n);
    return;
#endif
    /* ---- C04 / C02: property list, positional */
    bool wifi = !c->wifi_fail;
    bool bss = wifi && !c->bssid_fail;
    size_t o = 46;
    /* 0x01 host id: first */
    V_ASSERT(f[o] == 0x01 && f[o + 1] == 6, "C02,C04: host identifier comes first, length 6 (positional)");
    V_ASSERT(mac6_eq(f + o + 2, c->mac), "C04: host identifier is the interface's hardware address (positional)");
    o += 8;
    V_ASSERT(f[o] == 0x02 && f[o + 1] == 4, "C02,C04: characteristics property, length 4 (positional)");
    V_ASSERT(f[o + 2] == (uint8_t)(c->flags >> 8) && f[o + 3] == (uint8_t)c->flags && f[o + 4] == 0 && f[o + 5] == 0, "C04: characteristics flags in the upper 16 bits, big-endian (positional)");
    o += 6;
    V_ASSERT(f[o] == 0x03 && f[o + 1] == 4, "C02,C04: physical medium property, length 4 (positional)");
    if (!c->iftype_fail)
        V_ASSERT(f[o + 2] == be32_byte(c->iftype, 0) && f[o + 3] == be32_byte(c->iftype, 1) && f[o + 4] == be32_byte(c->iftype, 2) && f[o + 5] == be32_byte(c->iftype, 3), "C04: interface type big-endian (positional)");
    o += 6;
    V_ASSERT(f[o] == 0x07 && f[o + 1] == 4, "C02,C04: IPv4 property, length 4 (positional)");
    if (!c->ipv4_fail) {
        const uint8_t *ip = (const uint8_t *)&c->ipv4;       /* supplied in network order: bytes copied as they are */
        V_ASSERT(f[o + 2] == ip[0] && f[o + 3] == ip[1] && f[o + 4] == ip[2] && f[o + 5] == ip[3], "C04: IPv4 address as supplied by the platform (positional)");
    }
    o += 6;
    V_ASSERT(f[o] == 0x08 && f[o + 1] == 16, "C02,C04: IPv6 property, length 16 (positional)");
    if (!c->ipv6_fail) {
        bool same = true;
        for (int k = 0; k < 16; k++) if (f[o + 2 + k] != c->ipv6[k]) same = false;
        V_ASSERT(same, "C04: IPv6 address as supplied by the platform (positional)");
    }
    o += 18;
    V_ASSERT(f[o] == 0x0A && f[o + 1] == 8, "C02,C04: performance counter frequency property, length 8 (positional)");
    V_ASSERT(f[o + 2] == 0 && f[o + 3] == 0 && f[o + 4] == 0 && f[o + 5] == 0 && f[o + 6] == 0 && f[o + 7] == 0x0F && f[o + 8] == 0x42 && f[o + 9] == 0x40, "C04: fixed performance-counter frequency 1 000 000 big-endian (positional)");
    o += 10;
    V_ASSERT(f[o] == 0x0C && f[o + 1] == 4, "C02,C04: link speed property, length 4 (positional)");
    if (!c->speed_fail)
        V_ASSERT(f[o + 2] == be32_byte(c->speed, 0) && f[o + 3] == be32_byte(c->speed, 1) && f[o + 4] == be32_byte(c->speed, 2) && f[o + 5] == be32_byte(c->speed, 3), "C04: link speed big-endian (positional)");
    o += 6;
    V_ASSERT(f[o] == 0x0F && f[o + 1] == HL_EFF, "C02,C04: machine name property, at most 32 bytes (positional)");
    {
        bool same = true;
        for (int k = 0; k < HL_EFF; k++) if (f[o + 2 + k] != g_plat.hostname[k]) same = false;
        V_ASSERT(same, "C04: machine name bytes as supplied (first 32) (positional)");
    }
    o += 2 + HL_EFF;
    if (wifi) {
        V_ASSERT(f[o] == 0x04 && f[o + 1] == 1 && f[o + 2] == c->wifi_mode, "C04: wireless mode property on wireless interfaces (positional)");
        o += 3;
        if (bss) {
            V_ASSERT(f[o] == 0x05 && f[o + 1] == 6 && mac6_eq(f + o + 2, c->bssid), "C04: BSSID property as supplied (positional)");
            o += 8;
        }
        V_ASSERT(f[o] == 0x06 && f[o + 1] == SL_EFF, "C02,C04: SSID property, at most 32 bytes (positional)");
        {
            bool same = true;
            for (int k = 0; k < SL_EFF; k++) if (f[o + 2 + k] != c->ssid[k]) same = false;
            V_ASSERT(same, "C04: SSID bytes as supplied (first 32) (positional)");
        }
        o += 2 + SL_EFF;
        V_ASSERT(f[o] == 0x09 && f[o + 1] == 2, "C02,C04: maximum rate property, length 2 (positional)");
        if (!c->rate_fail) V_ASSERT(f[o + 2] == (uint8_t)(c->rate >> 8) && f[o + 3] == (uint8_t)c->rate, "C04: maximum rate big-endian (positional)");
        o += 4;
        V_ASSERT(f[o] == 0x0D && f[o + 1] == 4, "C02,C04: signal strength property, length 4 (positional)");
        if (!c->rssi_fail) {
            uint8_t ext = (c->rssi < 0) ? 0xFF : 0x00;
            V_ASSERT(f[o + 2] == ext && f[o + 3] == ext && f[o + 4] == ext && f[o + 5] == (uint8_t)c->rssi, "C04: signal strength keeps its sign (sign-extended big-endian) (positional)");
        }
        o += 6;
    }
    V_ASSERT(f[o] == 0x14 && f[o + 1] == 4 && f[o + 2] == 0xE0 && f[o + 3] == 0 && f[o + 4] == 0 && f[o + 5] == 0, "C04: fixed QoS characteristics E0 00 00 00 (positional)");
    o += 6;
    V_ASSERT(f[o] == 0x0E && f[o + 1] == 0, "C02: icon image property is an empty large-property marker (positional)");
    o += 2;
    V_ASSERT(f[o] == 0x11 && f[o + 1] == 0, "C02: friendly name property is an empty large-property marker (positional)");
    o += 2;
    V_ASSERT(f[o] == 0x00, "C02: property list ends with the end marker (positional)");
    o += 1;
    V_ASSERT(n == o, "C02: Hello ends exactly at its end marker (no trailing bytes) (positional)");
}

/* ---- stage 2: order-agnostic decoder. Used by the driver only when the positional oracle fails, so that a
 * legal re-ordering of the properties (host identifier still first) is not reported: same per-type value
 * rules, no type twice, mandatory set present, wireless set present iff wireless, end marker last byte. */
#ifdef HELLO_GENERIC
#define HG_MAX 24
static void oracle_hello_generic_chain(const vcfg *c, const uint8_t *f, size_t n) {
    bool wifi = !c->wifi_fail, bss = wifi && !c->bssid_fail;
    bool seen[32]; for (int i = 0; i < 32; i++) seen[i] = false;
    size_t o = 46; bool ended = false; unsigned count = 0;
    for (unsigned i = 0; i < HG_MAX; i++) {
        if (!ended) {
            V_ASSERT(o < n, "C02: property list stays inside the frame");
            if (o >= n) { ended = true; break; }
            uint8_t t = f[o];
            if (t == 0) { V_ASSERT(o + 1 == n, "C02: Hello ends exactly at its end marker"); ended = true; }
            else {
                V_ASSERT(o + 2 <= n, "C02: property header inside the frame");
                uint8_t l = f[o + 1];
                V_ASSERT(o + 2 + l <= n, "C02: property value inside the frame");
                V_ASSERT(t < 32 && !seen[t & 31], "C02: no property type twice");
                if (t < 32) seen[t] = true;
                if (count == 0) V_ASSERT(t == 0x01, "C02,C04: host identifier comes first");
                const uint8_t *v = f + o + 2;
                switch (t) {
                    case 0x01: V_ASSERT(l == 6 && mac6_eq(v, c->mac), "C04: host identifier is the interface's hardware address"); break;
                    case 0x02: V_ASSERT(l == 4 && v[0] == (uint8_t)(c->flags >> 8) && v[1] == (uint8_t)c->flags && v[2] == 0 && v[3] == 0, "C04: characteristics flags in the upper 16 bits, big-endian"); break;
                    case 0x03: V_ASSERT(l == 4, "C02: physical medium length 4");
                               if (!c->iftype_fail) V_ASSERT(v[0] == be32_byte(c->iftype, 0) && v[1] == be32_byte(c->iftype, 1) && v[2] == be32_byte(c->iftype, 2) && v[3] == be32_byte(c->iftype, 3), "C04: interface type big-endian"); break;
                    case 0x07: V_ASSERT(l == 4, "C02: IPv4 length 4");
                               if (!c->ipv4_fail) { const uint8_t *ip = (const uint8_t *)&c->ipv4; V_ASSERT(v[0] == ip[0] && v[1] == ip[1] && v[2] == ip[2] && v[3] == ip[3], "C04: IPv4 address as supplied by the platform"); } break;
                    case 0x08: V_ASSERT(l == 16, "C02: IPv6 length 16");
                               if (!c->ipv6_fail) { bool same = true; for (int k = 0; k < 16; k++) if (v[k] != c->ipv6[k]) same = false; V_ASSERT(same, "C04: IPv6 address as supplied by the platform"); } break;
                    case 0x0A: V_ASSERT(l == 8 && v[0] == 0 && v[1] == 0 && v[2] == 0 && v[3] == 0 && v[4] == 0 && v[5] == 0x0F && v[6] == 0x42 && v[7] == 0x40, "C04: fixed performance-counter frequency"); break;
                    case 0x0C: V_ASSERT(l == 4, "C02: link speed length 4");
                               if (!c->speed_fail) V_ASSERT(v[0] == be32_byte(c->speed, 0) && v[1] == be32_byte(c->speed, 1) && v[2] == be32_byte(c->speed, 2) && v[3] == be32_byte(c->speed, 3), "C04: link speed big-endian"); break;
                    case 0x0F: { V_ASSERT(l == HL_EFF, "C02,C04: machine name at most 32 bytes"); bool same = true; for (int k = 0; k < HL_EFF; k++) if (v[k] != g_plat.hostname[k]) same = false; V_ASSERT(same, "C04: machine name bytes as supplied"); } break;
                    case 0x04: V_ASSERT(wifi && l == 1 && v[0] == c->wifi_mode, "C04: wireless mode only on wireless interfaces, as supplied"); break;
                    case 0x05: V_ASSERT(bss && l == 6 && mac6_eq(v, c->bssid), "C04: BSSID only on wireless interfaces, as supplied"); break;
                    case 0x06: { V_ASSERT(wifi && l == SL_EFF, "C02,C04: SSID only on wireless interfaces, at most 32 bytes"); bool same = true; for (int k = 0; k < SL_EFF; k++) if (v[k] != c->ssid[k]) same = false; V_ASSERT(same, "C04: SSID bytes as supplied"); } break;
                    case 0x09: V_ASSERT(wifi && l == 2, "C02: maximum rate only on wireless interfaces, length 2");
                               if (!c->rate_fail) V_ASSERT(v[0] == (uint8_t)(c->rate >> 8) && v[1] == (uint8_t)c->rate, "C04: maximum rate big-endian"); break;
                    case 0x0D: V_ASSERT(wifi && l == 4, "C02: signal strength only on wireless interfaces, length 4");
                               if (!c->rssi_fail) { uint8_t ext = (c->rssi < 0) ? 0xFF : 0x00; V_ASSERT(v[0] == ext && v[1] == ext && v[2] == ext && v[3] == (uint8_t)c->rssi, "C04: signal strength keeps its sign"); } break;
                    case 0x14: V_ASSERT(l == 4 && v[0] == 0xE0 && v[1] == 0 && v[2] == 0 && v[3] == 0, "C04: fixed QoS characteristics"); break;
                    case 0x0E: V_ASSERT(l == 0, "C02: icon image marker is empty"); break;
                    case 0x11: V_ASSERT(l == 0, "C02: friendly name marker is empty"); break;
                    default: V_ASSERT(l <= 64, "C02: legal length for every other property type"); break;
                }
                o += 2 + (size_t)l; count++;
            }
        }
    }
    V_ASSERT(ended, "C02: a Hello's property list parses to its end marker");
    V_ASSERT(seen[0x01] && seen[0x02] && seen[0x03] && seen[0x07] && seen[0x08] && seen[0x0A] && seen[0x0C] && seen[0x0F] && seen[0x14], "C04: every attribute of the interface is present in the Hello");
    V_ASSERT(seen[0x04] == wifi && seen[0x06] == wifi && seen[0x09] == wifi && seen[0x0D] == wifi && seen[0x05] == bss, "C04: wireless attributes present exactly on wireless interfaces");
}
#endif

void h_discover(void) {
    common_setup(0);
    g_class = CL_HELLO;
    g_plat.hostname_len = HOSTLEN;          /* concrete per query */
    g_cfgA.ssid_len = SSIDLEN;
    V_ASSUME(is_disc_tos(in.frame[F_TOS]) && in.frame[F_OP] == opcode_discover);
    long live0 = g_live_blocks;
    bool accept = from_mapper_or_none();
    unsigned pre_n = in.st.n;
    probe_t *pre_head = ST->see_list;
    parseFrame(RX, &g_cfgA);
    if (accept) {
        V_ASSERT(g_nsend == 1 && g_hello_seen, "C03,C05: a Discover accepted under the one-mapper rule (from the active mapper, or from anyone while none is active) is answered by exactly one Hello");
        V_ASSERT(ST->mapper_known == 1 && mac6_eq(ST->mapper_real.a, in.frame + F_RSRC), "C05: accepted Discover's sender is the active mapper");
    } else {
        V_ASSERT(g_nsend == 0, "C05: a Discover from another station gets no reply while a mapper is active");
        V_ASSERT(ST->mapper_known == 1 && mac6_eq(ST->mapper_real.a, in.st.mreal), "C05: a foreign Discover does not change the mapper");
    }
    V_ASSERT(g_nsend <= 1, "C02,C03: at most one Hello per Discover");
    assert_mapp_step(ST);
    V_ASSERT(ST->see_list_count == pre_n, "C07: a Discover leaves recorded observations alone"); (void)pre_head;
    {
        struct snap sn; snapshot_list(ST, &sn);
        for (unsigned a = 0; a < K; a++) if (a < pre_n) V_ASSERT(snap_has(&sn, &in.st.node[a]), "C07,C10: observations recorded before a Discover are still there afterwards");
    }
    V_ASSERT(g_live_blocks == live0, "C19: Hello buffer released");
    V_WITNESS("h_discover end");
}
