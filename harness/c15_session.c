/* C15 — session automaton life-cycle. Real code: init_automata_session, switch_state_session. */
#include "vport.c"
#include "v_checks_on.h"
#include "lltdAutomata.c"
#include "v_checks_off.h"

static void on_send(void *c, const uint8_t *f, size_t n) { (void)c; (void)f; (void)n; }
static void on_sleep(uint32_t ms) { (void)ms; }

struct inputs {
    uint8_t state;
    int event;
    uint64_t last_ts, now_s;
};
#ifdef VERIF_CBMC
struct inputs nondet_inputs(void);
#endif
static struct inputs in;
static void load_inputs(void) {
#ifdef VERIF_CBMC
    in = nondet_inputs();
#else
#include "replay_init.inc"
#endif
}

enum { TEMPORARY = 0, NASCENT = 1, PENDING = 2, COMPLETE = 3 };

void h_step(void) {
    load_inputs();
    automata *a = init_automata_session();
    V_ASSUME(a != 0);
    V_ASSERT(a->current_state == NASCENT, "C15: a session starts Nascent");
    V_ASSUME(in.state <= 3);
    V_ASSUME(in.event >= 0 && in.event <= 7);     /* the session-event alphabet; anything else is left unspecified */
    V_ASSUME(in.last_ts <= in.now_s);
    uint64_t tmo = (uint64_t)a->states_table[in.state].timeout;
    V_ASSERT(a->states_table[TEMPORARY].timeout > 0 && a->states_table[PENDING].timeout > 0 && a->states_table[COMPLETE].timeout > 0,
             "C15: every non-Nascent state has an inactivity timeout");
    a->current_state = in.state;
    a->last_ts = in.last_ts;
    g_plat.now_s = in.now_s;
    uint64_t elapsed = in.now_s - in.last_ts;

    switch_state_session(a, in.event, (char *)"rx");
    uint8_t s = a->current_state;
    V_ASSERT(s <= 3, "C15: state stays within the four states");
    V_ASSERT(a->last_ts == in.now_s, "C15: last event time recorded");

    if (tmo != 0 && elapsed > tmo) {
        V_ASSERT(s == NASCENT, "C15: expiry of the inactivity timeout returns the session to Nascent");
    } else {
        uint8_t exp = in.state;
        int e = in.event;
        if (e == sess_reset) exp = NASCENT;
        else if (in.state == NASCENT && e == sess_discover_noack) exp = PENDING;
        else if (in.state == NASCENT && e == sess_discover_acking) exp = COMPLETE;
        else if (in.state == NASCENT && e == sess_discover_conflicting) exp = TEMPORARY;
        else if (in.state == PENDING && (e == sess_discover_acking || e == sess_discover_acking_chgd_xid)) exp = COMPLETE;
        else if (in.state == COMPLETE && e == sess_discover_noack_chgd_xid) exp = PENDING;
        else if (in.state == TEMPORARY && (e == sess_hello || e == sess_topo_reset)) exp = NASCENT;
        V_ASSERT(s == exp, "C15: single step follows the LLTD session life-cycle");
    }
    V_WITNESS("h_step end");
}

#ifndef VERIF_CBMC
int main(void) { HARNESS(); return 0; }
#endif
