/* C10 — emitter and observer halves agree: the very bytes responder A transmits for an Emit
 * descriptor aimed at station B are fed to responder B (same core, second interface context). */
static uint8_t p_cap[32]; static unsigned p_ncap; static bool p_phaseB;
static uint8_t p_desc_src[6]; static uint8_t p_kind;

static void oracle_pair(const vcfg *c, const uint8_t *f, size_t n) {
    (void)c;
    if (!p_phaseB) {
        if (g_nsend == 1) {                 /* the Probe/Train itself */
            V_ASSERT(n == 32, "C02: Probe/Train is exactly the 32-byte base header");
            if (n == 32) memcpy(p_cap, f, 32);
            p_ncap++;
        }
    } else {
        /* B's QueryResp: must list the observation with A as its source */
        V_ASSERT(f[F_OP] == 7, "C10: peer answers the Query with a QueryResp");
        unsigned cnt = be16(f + 32) & 0x7FFF;
        bool found = false;
        for (unsigned i = 0; i < K + 1; i++) {
            if (i < cnt) {
                const uint8_t *d = f + 34 + 20 * i;
                if (mac6_eq(d + 2, g_cfgA.mac) && mac6_eq(d + 8, p_desc_src) && mac6_eq(d + 14, g_cfgB.mac) && d[0] == 0 && d[1] == p_kind) found = true;
            }
        }
        V_ASSERT(found, "C10: the frame A put on the wire appears in B's next QueryResp with A as its source");
    }
}

void h_pair(void) {
    load_inputs();
    setup_platform(0);
    g_cfgB = in.cfg2;
#ifdef MTU_FIXED
    g_cfgB.mtu = MTU_FIXED;
#endif
    constrain_cfg(&g_cfgB, 0);
    V_ASSUME(!mac6_eq(g_cfgA.mac, g_cfgB.mac));
    g_class = CL_PAIR;
    /* responder A with an active mapper emits one descriptor towards station B */
    ST = build_state(&g_cfgA, &in.st);
    V_ASSUME(in.st.known == 1);
    ethernet_address_t src, dst;
    mac6_set(src.a, in.frame + 0); mac6_set(p_desc_src, in.frame + 0);
    mac6_set(dst.a, g_cfgB.mac);
    p_kind = in.frame[13] & 1;
    p_phaseB = false;
    (void)sendProbeMsg(src, dst, ST, &g_cfgA, in.frame[12], p_kind, (bool)(in.frame[14] & 1));
    V_ASSERT(p_ncap == 1, "C06: one Probe/Train on the wire");
    /* delivered unmodified to responder B (other interface context, arbitrary own history) */
    lltd_iface_state *SB = build_state(&g_cfgB, &in.st2);
    /* domain: B has not already recorded this very (Ethernet source, real source) pair, and has room to report it */
    for (unsigned i = 0; i < K; i++)
        if (i < in.st2.n) V_ASSUME(!(mac6_eq(in.st2.node[i].es, p_desc_src) && mac6_eq(in.st2.node[i].rs, g_cfgA.mac)));
    uint8_t *rxb = (uint8_t *)v_alloc(g_cfgB.mtu);
    memcpy(rxb, in.frame2, g_cfgB.mtu);           /* stale bytes beyond the received length */
    memcpy(rxb, p_cap, 32);
    unsigned sends_before = g_nsend;
    g_expect_ctx = (void *)&g_cfgB;
    parseFrame(rxb, &g_cfgB);
    V_ASSERT(g_nsend == sends_before, "C02: observing a Probe/Train transmits nothing");
    struct snap sn; snapshot_list(SB, &sn);
    struct node_in q; q.type = p_kind; mac6_set(q.rs, g_cfgA.mac); mac6_set(q.es, p_desc_src); mac6_set(q.ed, g_cfgB.mac);
    V_ASSERT(snap_has(&sn, &q), "C10: the Probe/Train emitted by A is recorded by B (source A, Ethernet addresses as on the wire)");
    V_ASSERT(sn.n == in.st2.n + 1, "C10: exactly one new observation at B");
#ifdef PAIR_QUERY
    /* the mapper's Query to B */
    uint8_t *qf = (uint8_t *)v_alloc(g_cfgB.mtu);
    memcpy(qf, in.frame2, g_cfgB.mtu);
    qf[F_TOS] = 0; qf[F_OP] = opcode_query;
    p_phaseB = true;
    sends_before = g_nsend;
    parseFrame(qf, &g_cfgB);
    V_ASSERT(g_nsend == sends_before + 1, "C10: B answers the Query");
#endif
    V_WITNESS("h_pair end");
}
