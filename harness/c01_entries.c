/* C01 — the other receive entry points:
 *   derive_session_event on the MTU-sized receive buffer (built WITHOUT LLTD_TESTING),
 *   lltd_esp32_handle_frame(ctx, frame, length) on a buffer of exactly `length` bytes. */
#include "vport.c"
#include "v_checks_on.h"
#include "lltdAutomata.c"
#include "os/esp32/daemon/lltd_esp32.c"
#include "v_checks_off.h"

static void on_send(void *c, const uint8_t *f, size_t n) { (void)c; (void)f; (void)n; }
static void on_sleep(uint32_t ms) { (void)ms; }
void parseFrame(void *frame, void *iface_ctx) { (void)frame; (void)iface_ctx; }

#ifndef MTU
#define MTU 576
#endif

struct inputs {
    uint8_t frame[MTU];
    uint8_t own[6];
    session_table tab;
    uint8_t have_tab;
    uint32_t length;
    uint8_t ms, ss, es;             /* automata states */
    uint64_t mts, sts, ets, now_s;
};
#ifdef VERIF_CBMC
struct inputs nondet_inputs(void);
#endif
static struct inputs in;
static void load_inputs(void) {
#ifdef VERIF_CBMC
    in = nondet_inputs();
#else
#include "replay_init.inc"
#endif
}


/* representation invariant of a session table as far as consumers outside the table code rely on it */
static bool tab_consistent(const session_table *t) {
    unsigned nv = 0; bool allc = true;
    for (int i = 0; i < SESSION_TABLE_MAX_ENTRIES; i++) if (t->entries[i].valid) { nv++; if (!t->entries[i].complete) allc = false; }
    return t->count == nv && t->all_complete == allc;
}

/* classifier on the same MTU-sized buffer the frame handler gets; any content, any station count */
void h_classifier(void) {
    load_inputs();
    uint8_t *f = (uint8_t *)v_alloc(MTU);
    memcpy(f, in.frame, MTU);
    session_table *T = 0;
    if (in.have_tab) { T = session_table_create(); V_ASSUME(T != 0); *T = in.tab; V_ASSUME(tab_consistent(T)); }
#ifdef STATIONS_FIT
    /* excluding variant for the known finding: station list held by the buffer */
    if (f[17] == 0) V_ASSUME((((unsigned)f[34] << 8) | f[35]) <= (MTU - 36) / 6);
#endif
    int r = derive_session_event(f, T, in.own);
    V_ASSERT(r >= -1 && r <= 7, "C01: classifier returns a session event or -1");
    V_WITNESS("h_classifier end");
}

/* length-checked embedded entry point: buffer object has exactly `length` bytes */
void h_esp32(void) {
    load_inputs();
    V_ASSUME(in.length <= MTU);
    uint8_t *f = (uint8_t *)v_alloc(in.length ? in.length : 1);
    if (in.length) memcpy(f, in.frame, in.length);
    lltd_esp32_ctx_t ctx;
    g_plat.now_s = 0;
    lltd_esp32_init(&ctx);
    V_ASSUME(ctx.mapping && ctx.session && ctx.enumeration && ctx.mapping->extra && ctx.enumeration->extra);
    V_ASSUME(in.ms < ctx.mapping->states_no && in.ss < ctx.session->states_no && in.es < ctx.enumeration->states_no);
    ctx.mapping->current_state = in.ms; ctx.session->current_state = in.ss; ctx.enumeration->current_state = in.es;
    ctx.mapping->last_ts = in.mts; ctx.session->last_ts = in.sts; ctx.enumeration->last_ts = in.ets;
    g_plat.now_s = in.now_s;
    lltd_esp32_handle_frame(&ctx, in.length ? f : f, in.length);
    lltd_esp32_handle_frame(0, f, in.length);
    lltd_esp32_handle_frame(&ctx, 0, in.length);
    V_ASSERT(ctx.mapping->current_state < ctx.mapping->states_no && ctx.session->current_state < ctx.session->states_no &&
             ctx.enumeration->current_state < ctx.enumeration->states_no, "C01: automata states stay within their tables after any frame");
    V_WITNESS("h_esp32 end");
}

#ifndef VERIF_CBMC
int main(void) { HARNESS(); return 0; }
#endif
