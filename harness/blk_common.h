/* Common part of every lltdBlock.c harness: one translation unit made of the
 * verification port and the repository's four core sources (so file-static items of
 * lltdBlock.c are reachable), the symbolic input struct, the builder for an
 * arbitrary valid per-interface record, the invariant, and byte-level helpers. */
#ifndef BLK_COMMON_H
#define BLK_COMMON_H

#include "vport.c"
#include "v_checks_on.h"
#include "lltdWire.c"
#include "lltdTlvOps.c"
#include "lltdBlock.c"
#include "v_checks_off.h"

#ifndef FRAME_N
#define FRAME_N 576          /* size of the symbolic frame image = largest MTU of this query */
#endif
#ifndef MTU_MIN
#define MTU_MIN 576
#endif
#ifndef K
#define K 3                  /* bound on the observation list in symbolic pre-states */
#endif
#define EMIT_MAXD(mtu) (((mtu) - 34) / 14)
#ifndef ICON_MAX
#define ICON_MAX 32768
#endif

struct node_in { uint8_t type; uint8_t rs[6], es[6], ed[6]; };
struct st_in {
    uint8_t known; uint8_t mreal[6], mapp[6];
    uint16_t seq, gen_t, gen_q;
    uint8_t n; struct node_in node[K];
    uint8_t icon_cached; uint32_t icon_size;
};

struct inputs {
    uint8_t frame[FRAME_N];
    vcfg cfg;
    vglobal plat;
    struct st_in st;
    uint8_t fail_malloc[V_MAXFAIL], fail_send[V_MAXFAIL], faults_on;
    uint32_t j, j2;             /* universally quantified indices used by oracles */
    /* second interface / second frame (C09, C10, C17) */
    uint8_t frame2[FRAME_N];
    vcfg cfg2;
    struct st_in st2;
    uint8_t sel;
};
#ifdef VERIF_CBMC
struct inputs nondet_inputs(void);
#endif
static struct inputs in;
static void load_inputs(void) {
#ifdef VERIF_CBMC
    in = nondet_inputs();
#else
#include "replay_init.inc"
#endif
}

static vcfg g_cfgA, g_cfgB;     /* interface contexts (iface_ctx points at these) */

static void constrain_cfg(vcfg *c, int faults) {
    V_ASSUME(c->mtu >= MTU_MIN && c->mtu <= FRAME_N);
    V_ASSUME(c->ssid_len <= V_NAME_MAX && c->ssid_ret_full <= 1);
    if (!faults) {
        c->mtu_fail = 0; c->mac_fail = 0;
    } else {
        V_ASSUME(c->mtu_fail <= 1 && c->mac_fail <= 1);
    }
    V_ASSUME(c->iftype_fail <= 1 && c->ipv4_fail <= 1 && c->ipv6_fail <= 1 && c->speed_fail <= 1 && c->wifi_fail <= 1 &&
             c->bssid_fail <= 1 && c->rate_fail <= 1 && c->rssi_fail <= 1 && c->phy_fail <= 1);
}

static void setup_platform(int faults) {
    g_plat = in.plat;
    V_ASSUME(g_plat.hostname_len <= V_NAME_MAX && g_plat.hostname_ret_full <= 1);
    V_ASSUME(g_plat.hwid_len <= 64);
    V_ASSUME(g_plat.icon_size <= ICON_MAX && g_plat.name_size <= ICON_MAX);
    V_ASSUME(g_plat.icon_fail <= 1 && g_plat.name_fail <= 1 && g_plat.uuid_fail <= 1);
    g_cfgA = in.cfg;
#ifdef MTU_FIXED
    g_cfgA.mtu = MTU_FIXED;        /* concrete MTU: receive/transmit buffers are constant-size objects */
#endif
    constrain_cfg(&g_cfgA, faults);
    g_faults_on = faults ? 1 : 0;
    if (faults) {
#define FS(i) g_fail_malloc[i] = in.fail_malloc[i] & 1; g_fail_send[i] = in.fail_send[i] & 1
        FS(0); FS(1); FS(2); FS(3); FS(4); FS(5); FS(6); FS(7);
#undef FS
    }
}

static bool mac6_eq(const uint8_t *a, const uint8_t *b) {
    return a[0] == b[0] && a[1] == b[1] && a[2] == b[2] && a[3] == b[3] && a[4] == b[4] && a[5] == b[5];
}
static bool mac6_is_bcast(const uint8_t *a) {
    return a[0] == 0xFF && a[1] == 0xFF && a[2] == 0xFF && a[3] == 0xFF && a[4] == 0xFF && a[5] == 0xFF;
}
static void mac6_set(uint8_t *d, const uint8_t *s) { d[0] = s[0]; d[1] = s[1]; d[2] = s[2]; d[3] = s[3]; d[4] = s[4]; d[5] = s[5]; }

static bool node_key_eq(const struct node_in *a, const struct node_in *b) {
    return mac6_eq(a->es, b->es) && mac6_eq(a->rs, b->rs);
}

/* Build an arbitrary valid per-interface record (the inductive pre-state) and register it. */
#ifdef VERIF_CBMC
lltd_iface_state nondet_iface_state(void);
#endif
static lltd_iface_state *build_state(void *ctx, const struct st_in *s) {
    V_ASSUME(s->known <= 1 && s->n <= K && s->icon_cached <= 1 && s->icon_size <= ICON_MAX);
    for (int a = 0; a < K; a++) {
        V_ASSUME(s->node[a].type <= 1);
        for (int b = a + 1; b < K; b++)
            if (a < s->n && b < s->n) V_ASSUME(!node_key_eq(&s->node[a], &s->node[b]));
    }
    lltd_iface_state *st = (lltd_iface_state *)v_alloc(sizeof(*st));
    /* every field this builder does not know about (one added by a later change to the repository) starts arbitrary:
     * it stands for whatever earlier frames may have left there; all known fields are set explicitly below */
#ifdef VERIF_CBMC
    { lltd_iface_state any = nondet_iface_state(); *st = any; }
#else
    memset(st, 0x5A, sizeof(*st));
#endif
    st->see_list = 0; st->see_list_count = 0; st->small_icon = 0; st->small_icon_size = 0;
    st->iface_ctx = ctx;
    st->next = g_iface_states;
    g_iface_states = st;
    st->mapper_known = s->known;
    mac6_set(st->mapper_real.a, s->mreal);
    mac6_set(st->mapper_apparent.a, s->mapp);
    st->mapper_seq = s->seq; st->mapper_gen_topology = s->gen_t; st->mapper_gen_quick = s->gen_q;
    probe_t *head = 0;
    for (int i = K - 1; i >= 0; i--) {       /* node[0] ends up at the head */
        if (i < s->n) {
            probe_t *p = (probe_t *)v_alloc(sizeof(*p));
            p->type = lltd_htons(s->node[i].type);
            mac6_set(p->realSourceAddr.a, s->node[i].rs);
            mac6_set(p->sourceAddr.a, s->node[i].es);
            mac6_set(p->destAddr.a, s->node[i].ed);
            p->nextProbe = head;
            head = p;
        }
    }
    st->see_list = head;
    st->see_list_count = s->n;
    if (s->icon_cached) {
        st->small_icon = v_alloc(s->icon_size ? s->icon_size : 1);
#ifndef VERIF_CBMC
        for (size_t i = 0; i < s->icon_size; i++) ((uint8_t *)st->small_icon)[i] = v_pattern(i, 0x11);
#endif
        st->small_icon_size = s->icon_size;
    }
    return st;
}

/* the MTU-sized receive buffer, exactly as the daemons allocate it */
static uint8_t *make_frame(const uint8_t *img, size_t mtu) {
    uint8_t *f = (uint8_t *)v_alloc(mtu);
    memcpy(f, img, mtu);
    return f;
}

static lltd_iface_state *find_state(void *ctx) {
    for (lltd_iface_state *c = g_iface_states; c; c = c->next) if (c->iface_ctx == ctx) return c;
    return 0;
}

/* Inv on the post-state: list well-formed, count exact, keys unique, icon cache consistent.
 * KP = bound on the list length to walk (K + 1 new observation). */
static void assert_inv(lltd_iface_state *st, unsigned kp) {
    V_ASSERT(st != 0, "C01: Inv: interface record exists");
    V_ASSERT(st->mapper_known <= 1, "C05: Inv: mapper_known is a flag");
    unsigned n = 0; probe_t *p = st->see_list;
    for (unsigned i = 0; i <= kp; i++) { if (p) { n++; p = (probe_t *)p->nextProbe; } }
    V_ASSERT(p == 0, "C01,C07,C19: Inv: observation list is finite and within its bound");
    V_ASSERT(n == st->see_list_count, "C02,C07,C09,C10,C19: Inv: observation count equals list length");
    /* unique keys: all pairs */
    probe_t *a = st->see_list;
    for (unsigned i = 0; i <= kp; i++) {
        if (a) {
            probe_t *b = (probe_t *)a->nextProbe;
            for (unsigned j = i + 1; j <= kp; j++) {
                if (b) {
                    V_ASSERT(!(mac6_eq(a->sourceAddr.a, b->sourceAddr.a) && mac6_eq(a->realSourceAddr.a, b->realSourceAddr.a)), "C07,C10: Inv: no observation recorded twice");
                    b = (probe_t *)b->nextProbe;
                }
            }
            V_ASSERT(a->type == lltd_htons(0) || a->type == lltd_htons(1), "C02,C07: Inv: observation type is Probe or Train");
            a = (probe_t *)a->nextProbe;
        }
    }
    V_ASSERT((st->small_icon == 0) ? (st->small_icon_size == 0) : 1, "C08,C09,C19: Inv: no icon size without icon");
#ifdef VERIF_CBMC
    if (st->small_icon) V_ASSERT(__CPROVER_r_ok(st->small_icon, st->small_icon_size), "C01,C08: Inv: cached icon holds its recorded size");
#endif
}

static unsigned list_len(lltd_iface_state *st, unsigned kp) {
    unsigned n = 0; probe_t *p = st->see_list;
    for (unsigned i = 0; i <= kp; i++) { if (p) { n++; p = (probe_t *)p->nextProbe; } }
    return n;
}

/* One walk over the observation list, copying node contents into scalars; every oracle
 * works on the snapshot (keeps pointer chasing out of the oracles). */
#define KP (K + 2)
struct snap { unsigned n; bool overflow; struct node_in node[KP]; uint16_t rawtype[KP]; };
static void snapshot_list(lltd_iface_state *st, struct snap *sn) {
    probe_t *p = st->see_list;
    sn->n = 0;
    for (unsigned i = 0; i < KP; i++) {
        if (p) {
            sn->rawtype[i] = p->type;
            sn->node[i].type = (p->type == lltd_htons(1)) ? 1 : 0;
            mac6_set(sn->node[i].rs, p->realSourceAddr.a);
            mac6_set(sn->node[i].es, p->sourceAddr.a);
            mac6_set(sn->node[i].ed, p->destAddr.a);
            sn->n++;
            p = (probe_t *)p->nextProbe;
        }
    }
    sn->overflow = (p != 0);
}
static bool snap_has(const struct snap *sn, const struct node_in *q) {
    bool f = false;
    for (unsigned i = 0; i < KP; i++)
        if (i < sn->n && sn->node[i].type == q->type && mac6_eq(sn->node[i].rs, q->rs) && mac6_eq(sn->node[i].es, q->es) && mac6_eq(sn->node[i].ed, q->ed)) f = true;
    return f;
}
static bool snap_has_key(const struct snap *sn, const uint8_t *es, const uint8_t *rs) {
    bool f = false;
    for (unsigned i = 0; i < KP; i++)
        if (i < sn->n && mac6_eq(sn->node[i].rs, rs) && mac6_eq(sn->node[i].es, es)) f = true;
    return f;
}
/* Inv on a snapshot */
static void assert_inv_snap(lltd_iface_state *st, const struct snap *sn) {
    V_ASSERT(st->mapper_known <= 1, "C05: Inv: mapper_known is a flag");
    V_ASSERT(!sn->overflow, "C01,C07,C19: Inv: observation list is finite and within its bound");
    V_ASSERT(sn->n == st->see_list_count, "C02,C07,C09,C10,C19: Inv: observation count equals list length");
    for (unsigned a = 0; a < KP; a++) {
        if (a < sn->n) V_ASSERT(sn->rawtype[a] == lltd_htons(0) || sn->rawtype[a] == lltd_htons(1), "C02,C07: Inv: observation type is Probe or Train");
        for (unsigned b = a + 1; b < KP; b++)
            if (b < sn->n) V_ASSERT(!node_key_eq(&sn->node[a], &sn->node[b]), "C07,C10: Inv: no observation recorded twice");
    }
    V_ASSERT((st->small_icon == 0) ? (st->small_icon_size == 0) : 1, "C08,C09,C19: Inv: no icon size without icon");
#ifdef VERIF_CBMC
    if (st->small_icon) V_ASSERT(__CPROVER_r_ok(st->small_icon, st->small_icon_size), "C01,C08: Inv: cached icon holds its recorded size");
#endif
}

/* header fields by wire offset (MS-LLTD): */
#define F_EDST 0
#define F_ESRC 6
#define F_ETYPE 12
#define F_VER 14
#define F_TOS 15
#define F_RSVD 16
#define F_OP 17
#define F_RDST 18
#define F_RSRC 24
#define F_SEQ 30
#define F_UP 32

static unsigned be16(const uint8_t *p) { return ((unsigned)p[0] << 8) | p[1]; }

/* C06's ACK travels to mapper_apparent, which the Emit class takes from an arbitrary pre-state; so every class that may
 * write it is held to: afterwards it is what it was, or an address of the sender of this very frame (Ethernet or real
 * source). One step from an arbitrary record = histories of any length. Not asserted while no mapper is registered. */
static void assert_mapp_step(lltd_iface_state *st) {
    if (st->mapper_known)
        V_ASSERT(mac6_eq(st->mapper_apparent.a, in.st.mapp) || mac6_eq(st->mapper_apparent.a, in.frame + F_ESRC) || mac6_eq(st->mapper_apparent.a, in.frame + F_RSRC),
                 "C06: the address a later ACK travels to (apparent mapper) is kept or taken from the sender of the frame just handled");
}

/* well-formedness common to every transmitted frame */
static void check_tx_common(const vcfg *c, const uint8_t *f, size_t n) {
    V_ASSERT(n >= 32, "C02: transmitted frame carries a full LLTD base header");
    V_ASSERT(c->mtu_fail || n <= c->mtu, "C02: transmitted frame no longer than the interface MTU");
    V_ASSERT(f[F_ETYPE] == 0x88 && f[F_ETYPE + 1] == 0xD9, "C02: EtherType 0x88D9");
    V_ASSERT(f[F_VER] == 1, "C02: version 1");
    V_ASSERT(f[F_RSVD] == 0, "C02: reserved byte 0");
    V_ASSERT(c->mac_fail || mac6_eq(f + F_RSRC, c->mac), "C02: own address as real source");
    uint8_t op = f[F_OP];
    V_ASSERT(op == 1 || op == 3 || op == 4 || op == 5 || op == 7 || op == 0x0C, "C02: opcode a responder may send");
}

/* stubs for handlers that a frame class must not reach (goto-instrument --replace-calls) */
void unreachable_handler(void *f, lltd_iface_state *st, void *ctx) {
    (void)f; (void)st; (void)ctx;
    V_ASSERT(0, "class split: handler of another frame class reached");
}

#ifndef VERIF_CBMC
#define MAIN_NATIVE int main(void) { HARNESS(); return 0; }
#else
#define MAIN_NATIVE
#endif

#endif
