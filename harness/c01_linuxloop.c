/* C01 (daemon clause) — the Linux embedded daemon's receive loop exactly as shipped:
 * real os/linux/daemon/linux-embedded-main.c:lltdLoop (recvfrom into the malloc(MTU) buffer, automata
 * steps with the raw opcode, parseFrame with the interface record as context), real os/linux/lltd_port.c
 * as platform layer, real protocol core. Only the system calls are stubs: recvfrom fills the buffer
 * with arbitrary bytes and returns an arbitrary length <= MTU; sendto accepts everything. */
#include "vmacros.h"
#include "v_checks_on.h"
#include "lltdWire.c"
#include "lltdTlvOps.c"
#include "lltdBlock.c"
#include "lltdAutomata.c"
#undef log_debug
#undef log_warning
#undef log_err
#undef log_crit
#undef log_alert
#define main lltd_embedded_main
#include "os/linux/daemon/linux-embedded-main.c"
#undef main
#include "os/linux/lltd_port.c"
#include "v_checks_off.h"

#ifndef LMTU
#define LMTU 576
#endif
#ifndef NFRAMES
#define NFRAMES 2
#endif

struct inputs { uint8_t frame[NFRAMES][LMTU]; int32_t len[NFRAMES]; uint32_t t_sec[NFRAMES]; uint32_t t_ns[NFRAMES]; uint8_t mac[6]; uint32_t flags, medium, speed, iftype; uint8_t hn_len; };
#ifdef VERIF_CBMC
struct inputs nondet_inputs(void);
#endif
static struct inputs in;
static void load_inputs(void) {
#ifdef VERIF_CBMC
    in = nondet_inputs();
#else
#include "replay_init.inc"
#endif
}

static unsigned g_rx;
static long g_now_sec, g_now_ns;
/* the clock does not advance inside the handling of one frame; between frames it advances arbitrarily */
int clock_gettime(clockid_t c, struct timespec *ts) { (void)c; ts->tv_sec = g_now_sec; ts->tv_nsec = g_now_ns; return 0; }
ssize_t recvfrom(int fd, void *buf, size_t n, int flags, struct sockaddr *a, socklen_t *al) {
    (void)fd; (void)flags; (void)a; (void)al;
    unsigned k = g_rx++;
    if (k >= NFRAMES) { exitFlag = 1; return -1; }
    V_ASSERT(n == LMTU, "C01: the daemon receives at most MTU bytes into its MTU-sized buffer");
    V_ASSUME((long)in.t_sec[k] >= g_now_sec && in.t_ns[k] < 1000000000u);
    g_now_sec = in.t_sec[k]; g_now_ns = in.t_ns[k];
    memcpy(buf, in.frame[k], n);          /* stale/arbitrary content everywhere, as after earlier receptions */
    return in.len[k];
}
ssize_t sendto(int fd, const void *buf, size_t n, int flags, const struct sockaddr *a, socklen_t al) {
    (void)fd; (void)flags; (void)a; (void)al;
#ifdef VERIF_CBMC
    __CPROVER_assert(__CPROVER_r_ok(buf, n), "C01: transmitted frame readable for its length");
#endif
    return (ssize_t)n;
}
int nanosleep(const struct timespec *a, struct timespec *b) { (void)a; (void)b; return 0; }
static uint8_t g_hn_len;
int gethostname(char *name, size_t len) {            /* arbitrary name of arbitrary length < len */
    size_t n = g_hn_len; if (n >= len) n = len ? len - 1 : 0;
    for (size_t i = 0; i < n && i < 64; i++) name[i] = 'a';
    if (len) name[n < 64 ? n : 64] = 0;
    return 0;
}
size_t strnlen(const char *s_, size_t m) { size_t i = 0; while (i < m && i < 80 && s_[i]) i++; return i; }
int getifaddrs(struct ifaddrs **ifap) { *ifap = 0; return 0; }        /* no addresses configured */
void freeifaddrs(struct ifaddrs *ifa) { (void)ifa; }
int fputs(const char *s_, FILE *f) { (void)s_; (void)f; return 0; }
int fputc(int c, FILE *f) { (void)f; return c; }
int vfprintf(FILE *f, const char *fmt, va_list ap) { (void)f; (void)fmt; (void)ap; return 0; }
int fflush(FILE *f) { (void)f; return 0; }

void h_linux_loop(void) {
    load_inputs();
    embedded_interface_ctx_t ctx;
    memset(&ctx, 0, sizeof(ctx));
    ctx.iface.deviceName = "eth0";
    ctx.iface.MTU = LMTU;
    ctx.iface.socket = 3;
    ctx.iface.flags = in.flags; ctx.iface.MediumType = in.medium; ctx.iface.LinkSpeed = in.speed; ctx.iface.ifType = in.iftype;
    memcpy(ctx.iface.macAddress, in.mac, 6);
    ctx.iface.recvBuffer = malloc(ctx.iface.MTU);
    V_ASSUME(ctx.iface.recvBuffer != 0);
    ctx.mapping = init_automata_mapping();
    ctx.session = init_automata_session();
    V_ASSUME(ctx.mapping != 0 && ctx.session != 0);
    for (int k = 0; k < NFRAMES; k++) V_ASSUME(in.len[k] <= LMTU);
    g_hn_len = in.hn_len;
    exitFlag = 0;
    lltdLoop(&ctx);
    V_WITNESS("h_linux_loop end");
}

#ifndef VERIF_CBMC
int main(void) { HARNESS(); return 0; }
#endif
