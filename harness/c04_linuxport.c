/* C04 (platform-layer clause) — Linux port getters over a symbolic interface record.
 * Real code: os/linux/lltd_port.c (its own lltd_port_* definitions; no verification port here). */
#include "vmacros.h"
#include "v_checks_on.h"
#include "os/linux/lltd_port.c"
#include "v_checks_off.h"

struct inputs { network_interface_t ni; };
#ifdef VERIF_CBMC
struct inputs nondet_inputs(void);
#endif
static struct inputs in;
static void load_inputs(void) {
#ifdef VERIF_CBMC
    in = nondet_inputs();
#else
#include "replay_init.inc"
#endif
}

void h_linux_getters(void) {
    load_inputs();
    network_interface_t ni = in.ni;
    ni.deviceName = "eth0";
    ni.seeList = 0; ni.recvBuffer = 0; ni.enumerationAutomata = 0;

    ethernet_address_t mac = {{0, 0, 0, 0, 0, 0}};
    V_ASSERT(lltd_port_get_mac_address(&ni, &mac) == 0, "C04: Linux port supplies the hardware address");
    V_ASSERT(mac.a[0] == ni.macAddress[0] && mac.a[1] == ni.macAddress[1] && mac.a[2] == ni.macAddress[2] &&
             mac.a[3] == ni.macAddress[3] && mac.a[4] == ni.macAddress[4] && mac.a[5] == ni.macAddress[5], "C04: Linux port copies the hardware address undistorted");
    size_t mtu = 0;
    V_ASSERT(lltd_port_get_mtu(&ni, &mtu) == 0 && mtu == (size_t)ni.MTU, "C04: Linux port copies the MTU");
    uint32_t t = 0;
    V_ASSERT(lltd_port_get_if_type(&ni, &t) == 0 && t == ni.ifType, "C04: Linux port copies the interface type");
    uint32_t q = 0;
    V_ASSERT(lltd_port_get_link_speed_100bps(&ni, &q) == 0, "C04: Linux port supplies the link speed");
    V_ASSERT((uint64_t)100 * q <= ni.LinkSpeed && ni.LinkSpeed < (uint64_t)100 * ((uint64_t)q + 1), "C04: link speed converted from bit/s to units of 100 bit/s");
    uint32_t fl = lltd_port_get_characteristics_flags(&ni);
    V_ASSERT(((fl & 0x2000u) != 0) == ((ni.MediumType & 0x10u) != 0), "C04: duplex maps to its characteristics bit");
    V_ASSERT(((fl & 0x0800u) != 0) == ((ni.flags & IFF_LOOPBACK) != 0), "C04: loopback maps to its characteristics bit");
    V_ASSERT((fl & ~0x2800u) == 0, "C04: no other characteristics bits invented");
    /* missing context / output: failure, not a crash */
    V_ASSERT(lltd_port_get_mac_address(0, &mac) != 0 && lltd_port_get_mtu(0, &mtu) != 0 && lltd_port_get_if_type(0, &t) != 0 &&
             lltd_port_get_link_speed_100bps(0, &q) != 0 && lltd_port_get_characteristics_flags(0) == 0, "C04: Linux getters fail cleanly without a context");
    uint8_t m = 0, bss[6]; uint16_t r = 0; int8_t rs = 0;
    V_ASSERT(lltd_port_get_wifi_mode(&ni, &m) != 0 && lltd_port_get_bssid(&ni, bss) != 0 && lltd_port_get_wifi_max_rate_0_5mbps(&ni, &r) != 0 && lltd_port_get_wifi_rssi_dbm(&ni, &rs) != 0,
             "C04: Linux port reports no wireless attributes (wired-only port), so no wireless properties are emitted");
    V_WITNESS("h_linux_getters end");
}

#ifndef VERIF_CBMC
int main(void) { HARNESS(); return 0; }
#endif
