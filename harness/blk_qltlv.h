/* QueryLargeTlv class (C08, C02, C19): chunked retrieval of icon / friendly name / hardware id.
 * Per-call relation for symbolic (type, offset, size, payload index); reassembly follows by
 * induction on the offset (L > 0 whenever 'more' is set, next offset = off + L <= S). */
static uint8_t g_hwid_copy[64];
static bool q_seen; static bool q_had_cache;
static uint8_t q_type; static unsigned q_off; static size_t q_S; static const uint8_t *q_data; static bool q_known;

static void oracle_qltlv(const vcfg *c, const uint8_t *f, size_t n) {
    q_seen = true;
    /* objects handed out by the port during this very request */
    if (q_type == 0x0E && !q_had_cache && !g_plat.icon_fail) q_data = g_last_icon;
    if (q_type == 0x11 && !g_plat.name_fail) q_data = g_last_name;
    if (q_type == 0x13) q_data = g_last_hwid_dst;     /* the core's own 64-byte buffer, filled by the getter with the id bytes */
    V_ASSERT(g_nsend == 1, "C02: at most one frame per QueryLargeTlv");
    V_ASSERT(f[F_OP] == 0x0C, "C08: a QueryLargeTlv is answered by a QueryLargeTlvResp");
    V_ASSERT(mac6_eq(f + F_ESRC, c->mac), "C02: QueryLargeTlvResp sourced from own address");
    V_ASSERT(f[F_SEQ] == in.frame[F_SEQ] && f[F_SEQ + 1] == in.frame[F_SEQ + 1], "C08: response carries the request's sequence number");
    /* destination of a QueryLargeTlvResp (unicast / broadcast-if-bridged) is not fixed by C02 or C08: not asserted */
    V_ASSERT(n >= 34, "C02: QueryLargeTlvResp has its length field");
    size_t maxp = c->mtu - 34;
    unsigned v = be16(f + 32); size_t L = v & 0x7FFF; bool more = (v & 0x8000) != 0;
    size_t expL = 0; bool expMore = false;
    if (q_known && q_S > 0 && q_off < q_S) {
        size_t rest = q_S - q_off;
        expL = rest > maxp ? maxp : rest;
        expMore = rest > maxp;
    }
    V_ASSERT(L == expL, "C08: payload is min(what fits in the MTU, bytes remaining at the offset); empty at/past the end or for an unknown property");
    V_ASSERT(more == expMore, "C08: 'more' set iff bytes remain beyond this chunk");
    V_ASSERT(n == 34 + L, "C02: QueryLargeTlvResp length is 34 + payload");
    V_ASSERT(n <= c->mtu, "C08: response fits in the MTU");
#ifdef V_MEMCPY_RECORD
    if (g_mc_calls > 0) {
        /* payload produced through the port's memcpy: check the copy's arguments (contract: dst[0..n) = src[0..n)) */
        V_ASSERT(g_mc_calls == 1 && L > 0, "C08: payload produced by one copy, none for an empty payload");
        V_ASSERT(g_mc_dst == (void *)(f + 34), "C08: payload placed right after the length field");
        V_ASSERT(g_mc_src == (const void *)(q_data + q_off), "C08: payload bytes are the property's bytes at the requested offset");
        V_ASSERT(g_mc_n == L, "C08: payload length equals the announced length");
    } else if (in.j < L) {
        /* payload produced some other way (e.g. a byte loop): compare the bytes themselves at a universally quantified index */
        V_ASSERT(f[34 + in.j] == q_data[q_off + in.j], "C08: payload bytes are the property's bytes at the requested offset");
    }
#else
    if (in.j < L) {
        V_ASSERT(f[34 + in.j] == q_data[q_off + in.j], "C08: payload bytes are the property's bytes at the requested offset");
    }
#endif
    if (expMore) V_ASSERT(L > 0 && q_off + L < q_S, "C08: a 'more' chunk makes progress and stays inside the data (reassembly terminates)");
}

/* getters that the "unknown property type" sub-class must not reach (installed with --replace-calls) */
int unreach_get_blob(void **d, size_t *n) { (void)d; (void)n; V_ASSERT(0, "class split: large-property getter reached for an unknown type"); return -1; }
size_t unreach_get_hwid(void *d, size_t n) { (void)d; (void)n; V_ASSERT(0, "class split: hardware-id getter reached for an unknown type"); return 0; }

void h_qltlv(void) {
    common_setup(0);
    g_class = CL_QLTLV;
    V_ASSUME(is_disc_tos(in.frame[F_TOS]) && in.frame[F_OP] == opcode_queryLargeTlv);
    bool dom05 = from_mapper_or_none();      /* C05's domain; C08 itself holds for any requester */
#ifdef QTYPE
    in.frame[32] = QTYPE; RX[32] = QTYPE;      /* concrete type byte: symex follows one switch arm only */
#endif
#ifdef QTYPE_OTHER
    V_ASSUME(in.frame[32] != 0x0E && in.frame[32] != 0x11 && in.frame[32] != 0x13);
#endif
    /* hardware id contract: hwid_len bytes of NUL-free UCS-2LE (the core finds the end by a 16-bit NUL) */
    V_ASSUME((g_plat.hwid_len & 1) == 0);
    for (unsigned i = 0; i < 64; i += 2) {
        if (i < g_plat.hwid_len) V_ASSUME(g_plat.hwid[i] != 0 || g_plat.hwid[i + 1] != 0);
    }
    memcpy(g_hwid_copy, g_plat.hwid, 64);
    q_type = in.frame[32];
    q_off = be16(in.frame + 34);
    unsigned seq = be16(in.frame + F_SEQ);
    bool had_cache = in.st.icon_cached;
    long live0 = g_live_blocks;
    q_known = false; q_S = 0; q_data = 0;
    if (q_type == 0x0E) {
        q_known = true;
        if (had_cache) { q_S = in.st.icon_size; q_data = (const uint8_t *)ST->small_icon; }
        else if (!g_plat.icon_fail) { q_S = g_plat.icon_size; /* q_data set after the fetch, see below */ }
    } else if (q_type == 0x11) {
        q_known = true;
        if (!g_plat.name_fail) q_S = g_plat.name_size;
    } else if (q_type == 0x13) {
        q_known = true; q_S = g_plat.hwid_len; q_data = g_hwid_copy;
    }
    q_had_cache = had_cache;
    parseFrame(RX, &g_cfgA);
    if (seq == 0) {
        V_ASSERT(g_nsend == 0, "C08: a request with sequence number zero is not answered");
        V_ASSERT(ST->mapper_known == in.st.known && mac6_eq(ST->mapper_real.a, in.st.mreal), "C05: an ignored QueryLargeTlv leaves the mapper alone");
        V_ASSERT(g_live_blocks == live0, "C19: nothing retained for an ignored request");
    } else {
        V_ASSERT(g_nsend == 1 && q_seen, "C08: exactly one QueryLargeTlvResp per request");
        assert_mapp_step(ST);
        if (!in.st.known) V_ASSERT(ST->mapper_known == 1 && mac6_eq(ST->mapper_real.a, in.frame + F_RSRC), "C03,C05: a QueryLargeTlv that opens the session makes its real source the mapper (later Discovers from it are the accepted ones)");
        else if (dom05) V_ASSERT(ST->mapper_known == 1 && mac6_eq(ST->mapper_real.a, in.st.mreal), "C05: a QueryLargeTlv from the active mapper leaves the mapper unchanged");
        bool newly_cached = (q_type == 0x0E) && !had_cache && !g_plat.icon_fail;
        V_ASSERT(g_live_blocks == live0 || (newly_cached && g_live_blocks == live0 + 1 && ST->small_icon != 0), "C19: fetched name / hardware id released; at most the icon is kept, and then as the record's cache, after a QueryLargeTlv");
    }
    V_ASSERT(ST->see_list_count == in.st.n, "C07: QueryLargeTlv leaves recorded observations alone");
    V_ASSERT((ST->small_icon == 0) ? (ST->small_icon_size == 0) : 1, "C08,C09,C19: Inv: no icon size without icon");
    V_WITNESS("h_qltlv end");
}
