/* C12 — periodic Hellos: paced, purposeful, stopping with the session.
 * Real code: automata_tick and everything it calls (built WITHOUT LLTD_TESTING so the
 * real transmit call is encoded), plus every other public automata/table/band/mapping call. */
#include "vport.c"
#include "v_checks_on.h"
#include "lltdAutomata.c"
#include "v_checks_off.h"

static void on_send(void *c, const uint8_t *f, size_t n) { (void)c; (void)f; (void)n; }
static void on_sleep(uint32_t ms) { (void)ms; }

#define N SESSION_TABLE_MAX_ENTRIES

struct inputs {
    /* mapping */
    uint8_t map_state; uint64_t map_last_ts; uint8_t ctc; uint64_t charge_ts, inactive_ts;
    /* enumeration */
    uint8_t en_state; uint64_t en_last_ts; band_state band;
    session_table tab;
    uint64_t now_ms, now_s, last_tx;
    uint64_t now_ms2, now_s2;          /* second tick (two-tick harness) */
    uint8_t op, op_arg; uint8_t mac[6]; uint16_t gen, seq; int ev;
    uint8_t have_map, have_tab, have_lasttx, have_ni;
    uint8_t consistent;                 /* 1: table satisfies count/all_complete invariant */
};
#ifdef VERIF_CBMC
struct inputs nondet_inputs(void);
#endif
static struct inputs in;
static void load_inputs(void) {
#ifdef VERIF_CBMC
    in = nondet_inputs();
#else
#include "replay_init.inc"
#endif
}


/* representation invariant of a session table as far as consumers outside the table code rely on it */
static bool tab_consistent(const session_table *t) {
    unsigned nv = 0; bool allc = true;
    for (int i = 0; i < SESSION_TABLE_MAX_ENTRIES; i++) if (t->entries[i].valid) { nv++; if (!t->entries[i].complete) allc = false; }
    return t->count == nv && t->all_complete == allc;
}

static unsigned g_hello_calls;
static int g_iface_token;
static uint64_t g_last_tx;
static uint64_t g_call_time;
static void rec_send_hello(void *ni) {
    V_ASSERT(ni == (void *)&g_iface_token, "C12: periodic Hello sent on the interface the tick belongs to");
    g_hello_calls++;
    g_call_time = g_plat.now_ms;
    V_WITNESS("periodic hello sent");
}

static automata *M, *E;
static session_table *T;
static band_state *B;
static lltd_automata_tick_port P;

static void build(void) {
    load_inputs();
    V_ASSUME(in.now_ms >= 1 && in.now_ms < (1ull << 62) && in.now_s < (1ull << 62));
    g_plat.now_ms = in.now_ms; g_plat.now_s = in.now_s;
    M = init_automata_mapping();
    E = init_automata_enumeration();
    T = session_table_create();
    V_ASSUME(M && E && T && M->extra && E->extra);
    V_ASSUME(in.map_state <= 2 && in.en_state <= 2);
    M->current_state = in.map_state; M->last_ts = in.map_last_ts;
    mapping_state *ms = (mapping_state *)M->extra;
    ms->ctc = in.ctc; ms->charge_timeout_ts = in.charge_ts; ms->inactive_timeout_ts = in.inactive_ts;
    E->current_state = in.en_state; E->last_ts = in.en_last_ts;
    B = (band_state *)E->extra;
    *B = in.band;
    *T = in.tab;
    V_ASSUME(tab_consistent(T));     /* count = live sessions, all_complete exact (C16's invariant) */
    V_ASSUME(in.last_tx <= in.now_ms);
    g_last_tx = in.last_tx;
    P.network_interface = in.have_ni ? (void *)&g_iface_token : 0;
    P.last_hello_tx_ms = in.have_lasttx ? &g_last_tx : 0;
    P.send_hello = rec_send_hello;
    g_hello_calls = 0;
}

static bool any_live_incomplete_unexpired(const session_table *t, uint64_t now_s) {
    for (int i = 0; i < N; i++) {
        const session_entry *e = &t->entries[i];
        if (e->valid && !e->complete && !(now_s > e->last_activity_ts + 60)) return true;
    }
    return false;
}
static bool any_live_incomplete(const session_table *t) {
    for (int i = 0; i < N; i++) if (t->entries[i].valid && !t->entries[i].complete) return true;
    return false;
}
static bool any_valid(const session_table *t) {
    for (int i = 0; i < N; i++) if (t->entries[i].valid) return true;
    return false;
}

void h_tick(void) {
    build();
    for (int i = 0; i < N; i++) V_ASSUME(in.tab.entries[i].last_activity_ts < (1ull << 62));
    bool purposeful = any_live_incomplete_unexpired(&in.tab, in.now_s);
    bool inactive_fired = in.have_map && in.inactive_ts != 0 && in.now_s >= in.inactive_ts;
    automata_tick(in.have_map ? M : 0, E, in.have_tab ? T : 0, &P);
    V_ASSERT(g_hello_calls <= 1, "C12: at most one periodic Hello per tick");
    if (g_hello_calls == 1) {
        V_ASSERT(in.have_tab && any_live_incomplete(T), "C12: periodic Hello only while the session table holds a session that is not yet complete");
        (void)purposeful;
        V_ASSERT(!in.have_lasttx || in.last_tx == 0 || in.now_ms - in.last_tx >= 1000, "C12: periodic Hellos never less than one second apart");
        V_ASSERT(!in.have_lasttx || g_last_tx == in.now_ms, "C12: transmit timestamp updated to now on send");
        V_ASSERT(!(inactive_fired && in.have_tab), "C12: no periodic Hello in the tick that ends the session for inactivity");
    } else {
        V_ASSERT(g_last_tx == in.last_tx, "C12: transmit timestamp untouched when nothing was sent");
    }
    if (in.have_tab && !any_valid(T)) {
        /* table empty after this tick: */
        V_ASSERT(g_hello_calls == 0, "C12: no periodic Hello once the session table is empty");
    }
    if (in.have_map && in.inactive_ts != 0 && !inactive_fired)
        V_ASSERT(((mapping_state *)M->extra)->inactive_timeout_ts == in.inactive_ts, "C12,C14: a tick before the 30 s inactivity deadline leaves the deadline armed (so the session is dropped, and periodic Hellos stop, once it passes)");
    if (inactive_fired) {
        if (in.have_tab) V_ASSERT(!any_valid(T) && T->count == 0, "C12: 30 s without traffic drops every session");
        V_ASSERT(M->current_state == 0, "C12: 30 s without traffic returns the mapping engine to idle");
    }
    V_WITNESS("h_tick end");
}

/* C13 at tick level: the end-of-block path of the periodic tick (statistics update + rescheduling), also when the
 * Hello timer is served in the same tick */
static uint32_t ref_ni13(uint32_t r) { if (r >= 15) return 10000u; uint32_t v = 45u * r * r; return v > 10000u ? 10000u : v; }
void h_tick_block(void) {
    build();
    for (int i = 0; i < N; i++) V_ASSUME(in.tab.entries[i].last_activity_ts < (1ull << 62));
    V_ASSUME(in.band.Ni >= 45 && in.band.Ni <= 10000);
    V_ASSUME(in.band.hello_timeout_ts < (1ull << 62) && in.band.block_timeout_ts < (1ull << 62));
    automata_tick(in.have_map ? M : 0, E, in.have_tab ? T : 0, &P);
    bool block_due = E->current_state == 1 && in.band.block_timeout_ts > 0 && in.now_ms >= in.band.block_timeout_ts;
    if (block_due) {
        bool begun_then = in.band.begun || g_hello_calls == 1 || B->begun;   /* a Hello sent in this tick starts enumeration */
        if (in.band.r > 0 && begun_then) V_ASSERT(B->Ni == ref_ni13(in.band.r), "C13: at the end of a block with r > 0 Hellos heard the count becomes min(NMAX, ALPHA*r^BETA) (tick path)");
        V_ASSERT(B->Ni >= 45 && B->Ni <= 10000, "C13: count stays within [ALPHA, NMAX] (tick path)");
        V_ASSERT(B->r == 0, "C13: r restarts with the new block (tick path)");
        uint64_t need = (80ull * B->Ni + 29) / 30; if (need < 6) need = 6;
        V_ASSERT(B->hello_timeout_ts >= in.now_ms + need, "C13: after the end of a block the next Hello is scheduled no sooner than the load formula for the new count allows, also when a Hello was sent in the same tick");
        V_ASSERT(B->block_timeout_ts == in.now_ms + 300, "C13: next block ends BLOCK_TIME later (tick path)");
        V_WITNESS("block end reached");
    }
    V_WITNESS("h_tick_block end");
}

/* every other public operation: cannot send, cannot touch the timestamp */
void h_others(void) {
    build();
    V_ASSUME(in.ev >= -128 && in.ev <= 255);
    switch (in.op) {
        case 0: session_table_add(T, in.mac, in.gen, in.seq); break;
        case 1: session_table_find(T, in.mac, in.gen, in.seq); break;
        case 2: session_table_remove(T, in.mac, in.gen); break;
        case 3: session_table_clear(T); break;
        case 4: session_table_update_complete_status(T); break;
        case 5: band_init_stats(B); break;
        case 6: band_update_stats(B); break;
        case 7: band_choose_hello_time(B); break;
        case 8: band_do_hello(B); break;
        case 9: band_on_hello_received(B); break;
        case 10: mapping_reset_charge((mapping_state *)M->extra); break;
        case 11: mapping_on_charge((mapping_state *)M->extra); break;
        case 12: mapping_check_charge_timeout((mapping_state *)M->extra); break;
        case 13: mapping_check_inactive_timeout((mapping_state *)M->extra); break;
        case 14: mapping_reset_inactive_timeout((mapping_state *)M->extra); break;
        case 15: switch_state_mapping(M, in.ev, (char *)"x"); break;
        case 16: switch_state_enumeration(E, in.ev, (char *)"x"); break;
        case 17: session_table_is_empty(T); session_table_all_complete(T); break;
        default: V_ASSUME(0);
    }
    V_ASSERT(g_hello_calls == 0, "C12: only the periodic tick emits unsolicited Hellos");
    V_ASSERT(g_last_tx == in.last_tx, "C12: only the periodic tick writes the transmit timestamp");
    V_WITNESS("h_others end");
}

/* direct cross-check: tick, arbitrary clock advance, tick */
void h_two_ticks(void) {
    build();
    V_ASSUME(in.have_lasttx && in.have_ni);
    for (int i = 0; i < N; i++) V_ASSUME(in.tab.entries[i].last_activity_ts < (1ull << 62));
    automata_tick(in.have_map ? M : 0, E, in.have_tab ? T : 0, &P);
    unsigned c1 = g_hello_calls; uint64_t t1 = g_call_time;
    V_ASSUME(in.now_ms2 >= in.now_ms && in.now_s2 >= in.now_s && in.now_ms2 < (1ull << 62) && in.now_s2 < (1ull << 62));
    g_plat.now_ms = in.now_ms2; g_plat.now_s = in.now_s2;
    automata_tick(in.have_map ? M : 0, E, in.have_tab ? T : 0, &P);
    if (c1 == 1 && g_hello_calls == 2) {
        V_ASSERT(g_call_time - t1 >= 1000, "C12: two consecutive periodic Hellos at least 1000 ms apart");
    }
    V_ASSERT(g_hello_calls <= 2, "C12: at most one periodic Hello per tick (two ticks)");
    V_WITNESS("h_two_ticks end");
}

#ifndef VERIF_CBMC
int main(void) { HARNESS(); return 0; }
#endif
