"""Registry: property id -> list of solver queries (per tier)."""
from vlib import Query

COMMON_ASSUME = [
    "CBMC 6.11 machine model: x86-64 LP64, little-endian unless a query says big_endian",
    "port functions honour the contracts of lltdPort.h (getters write only their out-parameters; name getters write at most dst_len bytes); log functions have empty bodies",
    "allocation failure is off unless the query enables the fault schedule (C18)",
    "within one core call the clock does not advance",
]

ASSUME = {}
REG = {}
# properties whose queries count CBMC-generated safety checks (overflow, bounds, ...) in the repository code as their own
OWN_SAFETY = {"C11", "C12", "C13", "C14", "C15", "C16"}


def prop(pid, assumptions=None):
    def deco(fn):
        REG[pid] = fn
        ASSUME[pid] = COMMON_ASSUME + list(assumptions or [])
        return fn
    return deco


def queries_for(pid, tier, seed=0):
    if pid not in REG:
        return []
    qs = REG[pid](tier, seed)
    if tier == "thorough":
        for q in qs:
            if len(q.backends) >= 2:
                q.agree = 2          # two back ends must reach the same verdict on every condition
    if pid in OWN_SAFETY:
        for q in qs:
            q.safety_for = tuple(q.safety_for) + (pid,)
    return qs


def assumptions_for(pid):
    return ASSUME.get(pid, COMMON_ASSUME)


# ------------------------------------------------------------------ C13
@prop("C13", ["r, Ni are full 32-bit symbolic; now_ms <= 2^64-65536 (no clock wrap)"])
def c13(tier, seed):
    b = {"r": "[0,2^32)", "Ni": "[0,2^32) (update) / [0,10000] (interval)", "begun": "{0,1}", "now_ms": "[0,2^64-65536]"}
    ex = ["--unsigned-overflow-check"]
    qs = [
        Query("c13_update", "c13_band.c", "h_update", unwind=3, extra=[], bounds=b, backends=("minisat", "cadical", "z3"),
              desc="band_update_stats vs wrap-free reference for all r, Ni"),
        Query("c13_update_nowrap", "c13_band.c", "h_update", unwind=3, extra=ex, bounds=b, backends=("minisat", "cadical", "z3"),
              desc="same with CBMC unsigned-overflow instrumentation inside band_update_stats (no wrap-around anywhere in the computation)"),
        Query("c13_interval", "c13_band.c", "h_interval", unwind=3, bounds=b, backends=("minisat", "cadical", "z3"),
              desc="band_choose_hello_time = now + max(6, ceil(80*Ni/30))"),
        Query("c13_mono", "c13_band.c", "h_mono", unwind=3, bounds=dict(b, r2="[r,2^32)"), backends=("minisat", "cadical", "z3"),
              desc="two-copy monotonicity r1<=r2"),
        Query("c13_heard", "c13_band.c", "h_heard", unwind=3, bounds=b, backends=("minisat", "cadical"),
              desc="band_on_hello_received bookkeeping"),
        Query("c13_tick_block", "c12_tick.c", "h_tick_block", unwind=17, backends=("cadical", "kissat", "minisat"), timeout=900, mem_gb=10,
              bounds={"state": "arbitrary automata/table/clock state as in C12, prior count in [45,10000], r in [0,2^32)", "tick": "one automata_tick; block timer due, Hello timer due or not"},
              desc="end-of-block path of automata_tick: count update and rescheduling by the formula, also when the Hello is sent in the same tick"),
    ]
    return qs


# ------------------------------------------------------------------ C14
@prop("C14", ["clock readings: last_ts <= now (monotone clock); now < 2^62 in the tick query",
              "mapping automaton built by the real init_automata_mapping, then state/last_ts overwritten symbolically"])
def c14(tier, seed):
    b = {"state": "{0,1,2}", "input": "[-128,255]", "last_ts,now": "any uint64 with last_ts<=now (every elapsed value)"}
    return [
        Query("c14_step", "c14_mapping.c", "h_step", unwind=14, bounds=b, backends=("minisat", "cadical"),
              desc="switch_state_mapping single step vs reference transition function; recursion depth <= 14 asserted"),
        Query("c14_tick", "c14_mapping.c", "h_tick", unwind=17, bounds=dict(b, table="16 arbitrary entries or no table", t0="inactivity timer armed at t0<=now"),
              backends=("cadical", "minisat", "kissat"),
              desc="automata_tick after mapping_reset_inactive_timeout: >30 s => idle, ctc 0, table empty; <30 s => untouched, deadline still armed"),
        Query("c14_two_ticks", "c14_mapping.c", "h_two_ticks", unwind=17, bounds=dict(b, ticks="one tick at any time before the deadline, one after it"),
              backends=("cadical", "minisat", "kissat"), desc="two ticks around the 30 s deadline with arbitrary charge state in between"),
    ]


# ------------------------------------------------------------------ C15
@prop("C15", ["events restricted to the session-event alphabet 0..7 (values outside are unspecified by the property)",
              "session automaton built by the real init_automata_session, then state/last_ts overwritten symbolically"])
def c15(tier, seed):
    b = {"state": "{0..3}", "event": "[0,7]", "last_ts,now": "any uint64 with last_ts<=now"}
    return [
        Query("c15_step", "c15_session.c", "h_step", unwind=17, bounds=b, backends=("minisat", "cadical"),
              desc="switch_state_session single step vs reference life-cycle"),
    ]


# ------------------------------------------------------------------ C16
@prop("C16", ["pre-state: any 16-slot table satisfying the representation invariant R (count = #valid, unique (mac,generation) among valid, all_complete exact, last_activity <= now)",
              "now < 2^62 s", "completion updates are performed as the daemons do: set entry->complete then session_table_update_complete_status"])
def c16(tier, seed):
    b = {"table": "16 fully symbolic entries satisfying R", "key": "mac 2^48 x generation 2^16 x seq 2^16", "slot index j": "symbolic 0..15 (universally quantified)"}
    qs = []
    for op in ("add", "find", "remove", "clear", "complete", "expiry"):
        qs.append(Query("c16_" + op, "c16_table.c", "h_" + op, unwind=17, bounds=b, backends=("kissat", "cadical", "minisat"),
                        timeout=900, mem_gb=10, desc="session table operation '%s' from an arbitrary R-state vs declarative spec; R re-asserted" % op))
    return qs


# ------------------------------------------------------------------ C12
@prop("C12", ["clock: now_ms >= 1 (0 is the 'never sent' sentinel of last_hello_tx_ms), now < 2^62; last_tx <= now_ms (the timestamp is only ever written with a clock reading)",
              "now_ms and now_s are independent symbolic values (over-approximates every relation between the two clocks)",
              "automata from the real constructors, every mutable field then overwritten with symbolic values; table count/all_complete NOT assumed consistent",
              "the Darwin glue (darwin-main.c) is not compiled here; its wiring (shared LastHelloTxMs, send_hello callback) is modelled by a recording callback and a harness-owned timestamp"])
def c12(tier, seed):
    b = {"mapping": "state 0..2, any timestamps/ctc", "enumeration": "state 0..2, arbitrary band_state", "table": "16 arbitrary entries, arbitrary count/all_complete",
         "clock": "now_ms in [1,2^62), now_s in [0,2^62), independent", "last_tx": "[0,now_ms]", "port": "interface/timestamp pointer present or NULL"}
    qs = [
        Query("c12_tick", "c12_tick.c", "h_tick", unwind=17, bounds=b, backends=("cadical", "kissat", "minisat"), timeout=900, mem_gb=10,
              desc="one automata_tick from an arbitrary state with recording send_hello: <=1 send, purposeful, >=1000 ms since last, timestamp := now, inactivity rule"),
        Query("c12_others", "c12_tick.c", "h_others", unwind=17, bounds=dict(b, op="symbolic choice of 18 other public operations"), backends=("cadical", "minisat"), timeout=600,
              desc="no other public automata/table/band/mapping operation sends or writes the timestamp"),
    ]
    if tier == "thorough":
        qs.append(Query("c12_two_ticks", "c12_tick.c", "h_two_ticks", unwind=17, bounds=dict(b, second_tick="arbitrary monotone clock advance"), backends=("cadical", "kissat", "minisat"),
                        timeout=1800, mem_gb=16, desc="two ticks with arbitrary clock advance in between: consecutive periodic Hellos >= 1000 ms apart"))
    return qs


# ------------------------------------------------------------------ C11
@prop("C11", ["frame handed over in an MTU-sized heap object; station count restricted to what that object holds (36+6*count <= MTU) - larger counts are the known finding listed under C01",
              "session table: arbitrary 16 entries with at most one valid entry matching the frame's (real source, generation) (table invariant of C16)",
              "Discover with count = 0 is left unconstrained (the property speaks of non-empty lists)"])
def c11(tier, seed):
    qs = []
    mtus = [576] if tier == "quick" else [576, 1500]
    if tier == "quick":
        nst = (1500 - 36) // 6
        qs.append(Query("c11_position_1500", "c11_classify.c", "h_position", defines=["MTU=1500"], unwind=nst + 2,
                        bounds={"frame": "1500 arbitrary bytes", "station count": "1..%d" % nst, "position": "symbolic 0..count-1"},
                        backends=("cadical", "minisat", "kissat"), timeout=1200, mem_gb=12, desc="own address at a symbolic list position is recognised (counts up to 244)"))
    for m in mtus:
        nst = (m - 36) // 6
        b = {"frame": "%d arbitrary bytes (every opcode 0..255)" % m, "station count": "0..%d" % nst, "own address": "2^48", "table": "16 arbitrary entries or none", "position": "symbolic 0..count-1"}
        qs.append(Query("c11_classify_%d" % m, "c11_classify.c", "h_classify", defines=["MTU=%d" % m], unwind=nst + 2, bounds=b,
                        backends=("cadical", "minisat", "kissat"), timeout=1200, mem_gb=12,
                        desc="derive_session_event vs byte-level reference for every opcode, count, table content"))
        qs.append(Query("c11_position_%d" % m, "c11_classify.c", "h_position", defines=["MTU=%d" % m], unwind=nst + 2, bounds=b,
                        backends=("cadical", "minisat", "kissat"), timeout=1200, mem_gb=12,
                        desc="own address at a symbolic list position is recognised"))
    return qs


# ------------------------------------------------------------------ lltdBlock.c frame classes
HANDLERS = ["answerHello", "parseEmit", "parseProbe", "parseQuery", "parseQueryLargeTlv"]


def unreach(*live):
    return {h: "unreachable_handler" for h in HANDLERS if h not in live}


def blkq(name, entry, live=(), K=3, frame_n=576, mtu_min=None, defines=None, unwind=None, unwindset=None, **kw):
    """frame_n = size of the frame image; mtu_min None => MTU fixed to frame_n (constant-size buffers), else MTU symbolic in [mtu_min, frame_n]"""
    d = ["K=%d" % K, "FRAME_N=%d" % frame_n] + list(defines or [])
    if mtu_min is not None:
        d.append("MTU_MIN=%d" % mtu_min)
    else:
        d += ["MTU_FIXED=%d" % frame_n, "MTU_MIN=%d" % min(frame_n, 576)]
    rep = kw.pop("replace", None)
    if rep is None:
        rep = unreach(*live)
    kw.setdefault("backends", ("cadical", "minisat", "kissat"))
    kw.setdefault("timeout", 900)
    kw.setdefault("mem_gb", 10)
    b = kw.pop("bounds", {})
    b = dict({"frame": "%d arbitrary bytes in an MTU-sized heap object" % frame_n, "MTU": ("[%d,%d] symbolic" % (mtu_min, frame_n)) if mtu_min is not None else ("%d (fixed)" % frame_n),
              "pre-state": "arbitrary valid interface record: mapper fields, seq, generations symbolic; observation list 0..%d nodes with distinct keys; icon cache present or not" % K}, **b)
    kw.setdefault("replay", all(v == "unreachable_handler" for v in rep.values()))
    return Query(name, "blk.c", entry, defines=d, unwind=unwind if unwind is not None else K + 3, unwindset=unwindset, replace=rep, bounds=b, **kw)


def q_query(tier, K=3, frame_n=576, mtu_min=None, name="query"):
    return blkq("blk_%s_K%d_%d" % (name, K, frame_n), "h_query", live=["parseQuery"], K=K, frame_n=frame_n, mtu_min=mtu_min, unwind=K + 3,
                no_std_checks=True, desc="Query class through real parseFrame/parseQuery: QueryResp oracle (count, more flag, descriptors, addressing, seq), post-state list, ledger")


def q_query_boundary(tier):
    """small-MTU model queries at every residue class that matters for the capacity arithmetic:
    (MTU-34) % 20 == 0 (exact fit), MTU % 20 in {12,13}, generic - list longer than the capacity"""
    return [q_query(tier, 5, frame_n=m, name="query_smallmtu") for m in (92, 93, 94)]


def q_emit_boundary(valid_kinds=True):
    """small-MTU model queries for the descriptor-walk bound: (MTU-34) % 14 in {12, 13, 0, 1}"""
    return [q_emit_loop(m, valid_kinds=valid_kinds) for m in (60, 61, 62, 63)]


def q_probe(tier, K=3):
    return blkq("blk_probe_K%d" % K, "h_probe", live=["parseProbe"], K=K, unwind=K + 4, no_std_checks=True,
                desc="Probe/Train class: record once iff addressed to own MAC and key new; earlier observations intact; no send")


def q_reset(tier, K=3):
    return blkq("blk_reset_K%d" % K, "h_reset", live=[], K=K, no_std_checks=True, desc="Reset class (ToS 0/1): record returns to fresh values, ledger = record only")


def q_other(tier, K=3):
    return blkq("blk_other_K%d" % K, "h_other", live=[], K=K, no_std_checks=True, desc="every (ToS,opcode) pair outside the request set: no send, record untouched")


def q_sweep(tier, K=2):
    rep = {"answerHello": "rec_answerHello", "parseEmit": "rec_parseEmit", "parseProbe": "rec_parseProbe", "parseQuery": "rec_parseQuery", "parseQueryLargeTlv": "rec_parseQueryLargeTlv"}
    return blkq("blk_sweep", "h_sweep", K=K, replace=rep, no_std_checks=True,
                bounds={"(ToS,opcode)": "all 256x256 pairs in one query", "mapper": "'no mapper' and 'mapper active' (symbolic)"},
                desc="real parseFrame pre-step + ToS/opcode switch with recording handler stubs: mapper identity step rules for all 65536 pairs")


@prop("C07", ["observation list bound K per query (stated in bounds); per-frame capacity crossed by K=29 at MTU 576 (capacity 27) and by the small-MTU model query (MTU 100, capacity 3, K=5) whose MTU lies outside the property's range but exercises the same code",
              "Query/Probe issued in any state; a Query is answered regardless of its sender (C05 leaves strangers' commands unconstrained)"])
def c07(tier, seed):
    qs = [q_query(tier, 3), q_probe(tier, 3), q_reset(tier, 3), q_probe_room(), q_discover(1, 1, K=3), q_emit_full(3), q_qltlv("alltypes_576"), q_other(tier, 3),
          q_query(tier, 5, frame_n=100, name="query_smallmtu")] + q_query_boundary(tier)
    if tier == "thorough":
        qs += [q_query(tier, 29), q_probe(tier, 8), q_query(tier, 3, frame_n=1500), q_query(tier, 3, frame_n=640, mtu_min=576, name="query_symmtu"),
               q_query(tier, 5, frame_n=113, mtu_min=94, name="query_smallsym"), q_query_long(300, 9216)]
    return qs


@prop("C05", ["commands (Emit/Query/QueryLargeTlv) are covered under the property's domain restriction (sender is the active mapper or none is active)"])
def c05(tier, seed):
    return [q_sweep(tier), q_reset(tier, 2), q_other(tier, 2), q_discover(1, 1), q_qltlv("alltypes_576"), q_query(tier, 2), q_emit_loop(576), q_probe(tier, 2)]


def q_discover(h, s, K=2, big_endian=False, frame_n=576):
    nm = "blk_discover_h%d_s%d%s%s" % (h, s, "_be" if big_endian else "", "" if frame_n == 576 else "_%d" % frame_n)
    q = blkq(nm, "h_discover", live=["answerHello"], K=K, frame_n=frame_n, defines=["HOSTLEN=%d" % h, "SSIDLEN=%d" % s], unwind=max(K + 3, 34),
                no_std_checks=True, big_endian=big_endian, timeout=600, backends=("minisat",),
                bounds={"hostname length": h, "SSID length": s, "attributes": "MAC 2^48, flags 2^32, ifType/IPv4/speed 2^32, IPv6 2^128, name bytes, RSSI 2^8, rate 2^16, Wi-Fi on/off, BSSID ok/fail, each getter failing independently - all symbolic",
                        "Discover": "ToS 0/1, any addresses/generation/seq, from mapper or stranger", "byte order": "big-endian machine model" if big_endian else "little-endian machine model"},
                desc="Discover class through real parseFrame/answerHello and all TLV writers: positional Hello oracle")
    q.hello_pair = (h, s)
    return q


LEN_EDGE = [0, 1, 31, 32, 33, 40]


@prop("C03", ["hostname/SSID lengths are concrete per query (boundary set in quick, the C04 grid covers all); everything else symbolic"])
def c03(tier, seed):
    pairs = [(0, 0), (32, 32), (40, 1)] if tier == "quick" else [(h, s) for h in LEN_EDGE for s in (0, 32, 40)]
    return [q_discover(h, s) for (h, s) in pairs] + [q_sweep(tier), q_qltlv("alltypes_576"), q_query(tier, 2), q_emit_loop(576)]


@prop("C04", ["hostname/SSID source lengths are case-split by the driver (concrete per query); quick: 6x6 boundary pairs, thorough: full 41x41 grid; all other attributes symbolic inside each query",
              "a getter that fails leaves its value unconstrained (the property fixes no value); lengths and types are still asserted",
              "Linux platform layer: os/linux/lltd_port.c getters over a symbolic network_interface_t; the getifaddrs-based IPv4/IPv6 getters and gethostname are outside the encoding"])
def c04(tier, seed):
    qs = []
    if tier == "quick":
        pairs = [(h, s) for h in LEN_EDGE for s in LEN_EDGE]
        be = [(0, 0), (33, 31), (40, 40)]
    else:
        pairs = [(h, s) for h in range(41) for s in range(41)]
        be = [(h, s) for h in LEN_EDGE for s in LEN_EDGE]
    qs += [q_discover(h, s) for (h, s) in pairs]
    qs += [q_discover(h, s, big_endian=True) for (h, s) in be]
    qs += q_rel(0, only=["discover"])       # attributes the platform cannot supply: whatever is emitted is at least determined (not stale memory)
    qs.append(Query("c04_linux_getters", "c04_linuxport.c", "h_linux_getters", unwind=8, backends=("minisat", "cadical"), safety_for=("C01", "C04"),
                    bounds={"network_interface_t": "every field symbolic (MAC 2^48, MTU/ifType/LinkSpeed/MediumType/flags 2^32)"},
                    desc="os/linux/lltd_port.c getters vs the interface record: copy / conversion / bit mapping"))
    return qs


def q_emit_loop(frame_n=576, valid_kinds=True, K=2):
    maxd = (frame_n - 34) // 14
    rep = unreach("parseEmit"); rep["sendProbeMsg"] = "rec_sendProbeMsg"
    return blkq("blk_emit_loop_%d%s" % (frame_n, "" if valid_kinds else "_anykind"), "h_emit_loop", K=K, frame_n=frame_n, replace=rep,
                defines=["EMIT_VALID_KINDS"] if valid_kinds else [], unwind=max(maxd + 2, 16), safety_for=("C01", "C06", "C18"),
                bounds={"declared count": "0..0xFFFF", "descriptors": "all %d slots of the frame symbolic%s" % (maxd, ", kinds in {0,1}" if valid_kinds else ", any kind byte")},
                desc="real parseFrame+parseEmit descriptor walk with recording sendProbeMsg stub; pointer checks on every descriptor read")


def q_emit_send(K=2):
    return blkq("blk_emit_send", "h_emit_send", K=K, replace={}, no_std_checks=False, safety_for=("C01", "C06", "C18"),
                bounds={"arguments": "src/dst 2^48 each, pause 0..255, kind {0,1}, ack {0,1}; arbitrary record (mapper, seq)"},
                desc="real sendProbeMsg alone: sleep(pause) -> Probe/Train(32 bytes) -> optional ACK; buffers released")


def q_emit_full(n=3, K=2):
    return blkq("blk_emit_full_n%d" % n, "h_emit_full", live=["parseEmit"], K=K, defines=["NMAX_FULL=%d" % n], unwind=max(n + 2, K + 3), no_std_checks=True,
                bounds={"declared count": "1..%d" % n, "descriptors": "kinds {0,1}, any pause/src/dst"},
                desc="undecomposed Emit path through real parseFrame/parseEmit/sendProbeMsg: ordered (sleep, send) events and final ACK")


@prop("C06", ["Emit issued by the active mapper or while none is active (property's domain); descriptor kinds in {0,1} in the functional queries (other kinds: safety only); transmit succeeds",
              "decomposition: loop query guarantees the argument/ack relation that the single-call query assumes (both over real code)"])
def c06(tier, seed):
    qs = [q_emit_loop(576), q_emit_send(), q_emit_full(3)] + q_emit_boundary()
    # the ACK travels to the record's apparent mapper address: every class that can write it is held to the step rule (assert_mapp_step)
    qs += [q_query(tier, 2), q_qltlv("alltypes_576"), q_discover(1, 1), q_other(tier, 2)]
    if tier == "thorough":
        qs += [q_emit_loop(1500), q_emit_full(12)]
    return qs


def q_qltlv(name, frame_n=576, mtu_min=None, defines=None, K=2, icon_max=32768, **kw):
    d = list(defines or []) + ["ICON_MAX=%d" % icon_max, "V_MEMCPY_RECORD"]
    rep = unreach("parseQueryLargeTlv")
    if "QTYPE_OTHER" in d:
        rep.update({"lltd_port_get_icon_image": "unreach_get_blob", "lltd_port_get_friendly_name": "unreach_get_blob", "lltd_port_get_hw_id": "unreach_get_hwid"})
    return blkq("blk_qltlv_%s" % name, "h_qltlv", replace=rep, K=K, frame_n=frame_n, mtu_min=mtu_min, defines=d, unwind=36, no_std_checks=True,
                bounds={"type": "0..255" if not defines else str(defines), "offset": "0..65535", "data size": "0..%d (icon, friendly name), 0..64 even (hardware id)" % icon_max,
                        "payload index j": "symbolic (universally quantified)", "icon": "from the port or from the session cache (both pre-states)", "seq": "0..65535 (0 = ignored)"},
                desc="QueryLargeTlv class through real parseFrame/parseQueryLargeTlv/sendLargeTlvResponse: per-call chunk relation + ownership ledger", **kw)


@prop("C08", ["hardware id contract: even number of bytes (<= 64) of NUL-free UCS-2LE, as the core recovers its length by scanning for a 16-bit NUL",
              "request from any station (the mapper-identity assertions, C05, apply only to requests from the active mapper or while none is active)",
              "reassembly = induction on the offset over the per-call relation (progress and containment asserted per call); data size <= 32768, MTU as stated per query",
              "the payload copy is checked through the contract of lltd_port_memcpy (dst[0..n) = src[0..n)): destination, source+offset and length of the single copy are asserted, readable/writable regions are asserted; bytes are not moved inside the solver (CBMC's own memcpy model with symbolic length and offset exhausts memory)"])
def c08(tier, seed):
    def fam(tag, **kw):
        return [q_qltlv("icon_" + tag, defines=["QTYPE=0x0E"], **kw), q_qltlv("name_" + tag, defines=["QTYPE=0x11"], **kw),
                q_qltlv("hwid_" + tag, defines=["QTYPE=0x13"], **kw), q_qltlv("other_" + tag, defines=["QTYPE_OTHER"], **kw)]
    qs = fam("576") + [q_qltlv("alltypes_576"), q_qltlv("alltypes_symmtu", frame_n=9216, mtu_min=576), q_reset(tier, 2)]
    if tier == "thorough":
        qs += fam("1500", frame_n=1500) + fam("9216", frame_n=9216) + fam("symmtu", frame_n=9216, mtu_min=576, timeout=1800, mem_gb=16)
    return qs


SAFETY_ALL = ("C01", "C18")


def q_safety_class(cls, live, name, K=2, frame_n=576, defines=None, unwind=None, replace_extra=None, **kw):
    rep = unreach(*live)
    if replace_extra:
        rep.update(replace_extra)
    d = ["SAFETY_CLASS=%d" % cls] + list(defines or [])
    return blkq("blk_safety_%s_%d" % (name, frame_n), "h_safety", K=K, frame_n=frame_n, defines=d, replace=rep, unwind=unwind if unwind is not None else K + 4,
                desc="memory-safety / UB instrumentation (bounds, pointer validity, pointer overflow, signed overflow, shifts, div-by-zero, double free) of real parseFrame and the '%s' handler chain; frame = arbitrary bytes" % name, **kw)


def c01_block_queries(frame_n=576, K=2, hello_pairs=((0, 0), (40, 40))):
    maxd = (frame_n - 34) // 14
    qs = []
    for (h, s) in hello_pairs:
        qs.append(q_safety_class(0, ["answerHello"], "discover_h%d_s%d" % (h, s), K=K, frame_n=frame_n, defines=["HOSTLEN=%d" % h, "SSIDLEN=%d" % s], unwind=max(K + 4, 8)))
    if frame_n <= 1500:
        qs.append(q_safety_class(2, ["parseEmit"], "emit", K=K, frame_n=frame_n, unwind=maxd + 2))
    else:
        # undecomposed Emit path does not finish at 656 descriptors: descriptor walk with recording stub + real sendProbeMsg alone (assume/guarantee)
        q = q_emit_loop(frame_n, valid_kinds=False, K=K)
        q.timeout = 3000; q.mem_gb = 24
        qs.append(q)
    qs.append(q_safety_class(3, ["parseProbe"], "probe", K=K, frame_n=frame_n))
    qs.append(q_safety_class(6, ["parseQuery"], "query", K=K, frame_n=frame_n))
    qs.append(q_safety_class(8, [], "reset", K=K, frame_n=frame_n))
    qs.append(q_safety_class(11, ["parseQueryLargeTlv"], "qltlv", K=K, frame_n=frame_n, defines=["V_MEMCPY_RECORD"], unwind=36))
    qs.append(q_safety_class(255, [], "other", K=K, frame_n=frame_n))
    return qs


@prop("C01", ["receive buffer = heap object of exactly MTU bytes with arbitrary content (what every daemon allocates); ESP32 entry: object of exactly `length` bytes",
              "class split of the (ToS,opcode) space is itself asserted (unreachable-handler stubs); MTU fixed per query (576; thorough adds 1500 and 9216)",
              "sequences of frames: every class query starts from an arbitrary valid interface record and re-establishes the record invariant (one inductive step)",
              "QueryLargeTlv payload copy: region validity asserted through the port memcpy contract (r_ok/w_ok of the exact source/destination ranges)",
              "known finding (not repaired): derive_session_event scans the wire station count with no knowledge of the buffer size; the excluding variant (count fits in the buffer) must pass"])
def c01(tier, seed):
    qs = c01_block_queries(576)
    qs.append(q_emit_loop(576, valid_kinds=False))
    qs += q_emit_boundary(valid_kinds=False)
    qs += [q_safety_class(6, ["parseQuery"], "query", K=5, frame_n=m) for m in (92, 93, 94)]
    qs.append(q_emit_send())
    nst = (576 - 36) // 6
    b = {"frame": "576 arbitrary bytes", "table": "16 arbitrary entries or none", "station count": "0..65535"}
    qs.append(Query("c01_classifier_any", "c01_entries.c", "h_classifier", defines=["MTU=576"], unwind=nst + 2, bounds=b, unwind_fail_is_violation=True,
                    backends=("cadical", "minisat"), timeout=900, desc="derive_session_event on the MTU-sized buffer, any station count (known finding expected)"))
    qs.append(Query("c01_classifier_fit", "c01_entries.c", "h_classifier", defines=["MTU=576", "STATIONS_FIT"], unwind=nst + 2, bounds=dict(b, **{"station count": "0..%d (fits)" % nst}),
                    backends=("cadical", "minisat"), timeout=900, desc="same, station list held by the buffer (excluding variant of the known finding)"))
    qs.append(Query("c01_esp32", "c01_entries.c", "h_esp32", defines=["MTU=576"], unwind=18, bounds={"length": "0..576, buffer object of exactly that many bytes", "automata": "real constructors, arbitrary current_state < states_no"},
                    backends=("cadical", "minisat"), timeout=900, desc="lltd_esp32_handle_frame: never reads past the given length; automata steps safe for raw opcodes 0..255"))
    qs += [x for x in c12("quick", seed) if x.name == "c12_tick"]
    qs += c14("quick", seed) + c15("quick", seed)
    if tier == "thorough":
        for nf in (1,):      # two consecutive receptions with all handlers live do not finish within 3000 s / 24 GB (sequences are covered by the inductive class queries)
            qs.append(Query("c01_linux_loop_%dframe" % nf, "c01_linuxloop.c", "h_linux_loop", defines=["LMTU=576", "NFRAMES=%d" % nf, "LINUX"], unwind=82,
                            backends=("cadical", "minisat"), timeout=3000, mem_gb=24, replay=False,
                            bounds={"frames": "%d consecutive receptions, each 576 arbitrary bytes with an arbitrary reported length <= MTU" % nf, "clock": "arbitrary monotone, constant within one frame",
                                    "interface record": "symbolic MAC/flags/medium/speed/type, MTU 576", "handlers": "all live (no class split)"},
                            desc="real linux-embedded lltdLoop + real os/linux/lltd_port.c + real core; only system calls stubbed (recvfrom, sendto, clock_gettime, gethostname, getifaddrs, stdio)"))
        qs += c01_block_queries(1500, hello_pairs=((33, 31),)) + c01_block_queries(9216, hello_pairs=((32, 32),))
        qs.append(q_emit_loop(1500, valid_kinds=False))
    return qs


def q_pair(K=2, query=False):
    live = ["parseProbe"] + (["parseQuery"] if query else [])
    return blkq("blk_pair%s_K%d" % ("_query" if query else "", K), "h_pair", live=live, K=K, defines=["PAIR_QUERY"] if query else [], unwind=K + 5, no_std_checks=True,
                bounds={"A,B": "arbitrary distinct addresses; A has an active mapper; B has an arbitrary own observation list (unrelated traffic) not containing this pair yet",
                        "descriptor": "any source, destination = B, Probe or Train, any pause, ack or not"},
                desc="real sendProbeMsg on A -> captured 32 bytes -> real parseFrame/parseProbe on B%s" % (" -> Query to B -> QueryResp oracle" if query else ""))


@prop("C10", ["one descriptor per query (an Emit is a sequence of independent sendProbeMsg calls - C06); B's earlier observations (unrelated traffic) arbitrary but without this (Ethernet source, real source) pair, K bound stated",
              "delivery unmodified: the 32 captured bytes are copied to the head of B's MTU-sized receive buffer, remaining bytes arbitrary"])
def c10(tier, seed):
    qs = [q_pair(2), q_pair(2, query=True), q_emit_send(), q_query(tier, 5, frame_n=100, name="query_smallmtu"), q_probe(tier, 2), q_discover(1, 1, K=2)]
    if tier == "thorough":
        qs += [q_pair(6), q_pair(6, query=True)]
    return qs


REL_CLASSES = [  # (class id, name, live handlers, extra defines, max sends)
    (0, "discover", ["answerHello"], ["HOSTLEN=33", "SSIDLEN=7"], 2),
    (2, "emit", ["parseEmit"], [], 4),
    (3, "probe", ["parseProbe"], [], 2),
    (6, "query", ["parseQuery"], [], 2),
    (8, "reset", [], [], 2),
    (11, "qltlv_icon", ["parseQueryLargeTlv"], ["QTYPE=0x0E", "V_MEMCPY_RECORD"], 2),
    (11, "qltlv_name", ["parseQueryLargeTlv"], ["QTYPE=0x11", "V_MEMCPY_RECORD"], 2),
    (11, "qltlv_hwid", ["parseQueryLargeTlv"], ["QTYPE=0x13", "V_MEMCPY_RECORD"], 2),
    (255, "other", [], [], 2),
]
REL_MODE_DESC = {0: "determinism: identical record and frame, independent fresh memory", 1: "C09 induction step: records differ only in stale mapper addresses while no mapper is active",
                 2: "C09 direct: (arbitrary record -> topology Reset -> frame) vs (freshly started responder -> same frame)", 3: "C17: second interface's record present vs absent",
                 4: "C17 threads: interface A alone vs interface A with interface B's same-class handler running inside one of A's platform calls"}


def q_rel(mode, K=2, only=None, preempt_at=None, extra_defs=None):
    qs = []
    for (cid, name, live, defs, maxsend) in REL_CLASSES:
        if only and name not in only:
            continue
        if preempt_at is not None:
            defs = defs + ["V_PREEMPT", "PREEMPT_AT=%d" % preempt_at]
        if extra_defs:
            defs = defs + list(extra_defs)
        rep = unreach(*live)
        if name.startswith("qltlv_") is False and cid == 11:
            pass
        nm = "blk_rel%d_%s" % (mode, name) + ("" if preempt_at is None else "_at%d" % preempt_at)
        if mode == 4:
            rep = {}
        qs.append(blkq(nm, "h_rel", K=K, replace=rep, defines=["REL_MODE=%d" % mode, "REL_CLASS=%d" % cid, "REL_MAXSEND=%d" % maxsend] + defs,
                       unwind=max(K + 5, 36 if cid in (0, 11) else 0), no_std_checks=True, replay=False,
                       bounds={"worlds": REL_MODE_DESC[mode], "compared": "per send: length and byte at a universally quantified index; post-records field by field; continuation frame of class '%s'" % name},
                       desc="two-world relational step, class '%s': %s" % (name, REL_MODE_DESC[mode])))
    return qs


@prop("C09", ["step A: the Reset class query shows the record after a topology Reset equals a fresh record except for stale mapper addresses (masked by mapper_known = 0)",
              "step B (induction): records that differ only in stale mapper addresses produce identical output and equivalent post-records for every frame class => identical traces for continuations of any length",
              "direct cross-check with the record created by the real lltd_state_for_iface on a fresh registry, continuation length 1 per class",
              "Emit continuation bounded to 3 descriptors; Hello with hostname length 33 / SSID length 7; observation list bound K=2; platform large-property data identical in both worlds (same getter results)"])
def c09(tier, seed):
    # induction step in two variants; the Reset class query tells which one applies (auxiliary condition AUX:reset_zeroes_seq_gen):
    #  strong relation (sequence/generation numbers equal) if the Reset zeroes them, weak relation (they may differ) otherwise
    strong = q_rel(1, extra_defs=["REL_SEQ_EQUAL"])
    for q in strong:
        q.guard = ("AUX:reset_zeroes_seq_gen", True)
    weak = q_rel(1)
    for q in weak:
        q.name = q.name.replace("blk_rel1_", "blk_rel1w_"); q.guard = ("AUX:reset_zeroes_seq_gen", False)
    qs = [q_reset(tier, 3)] + strong + weak + q_rel(2)
    if tier == "thorough":
        s3 = q_rel(1, K=3, extra_defs=["REL_SEQ_EQUAL"]); w3 = q_rel(1, K=3); d3 = q_rel(2, K=3)
        for q in s3:
            q.guard = ("AUX:reset_zeroes_seq_gen", True)
        for q in w3:
            q.name = q.name.replace("blk_rel1_", "blk_rel1w_"); q.guard = ("AUX:reset_zeroes_seq_gen", False)
        for q in s3 + w3 + d3:
            q.name += "_K3"
        qs += s3 + w3 + d3
    return qs


def q_preempt(registered):
    return blkq("blk_preempt_%s" % ("registered" if registered else "firstframes"), "h_preempt", live=["parseProbe"], K=1, defines=["PRE_REGISTERED"] if registered else [],
                unwind=6, no_std_checks=True, isr="thread_b", replay=False,
                bounds={"threads": "two interfaces; B's whole parseFrame call runs atomically at any access of A's call to a shared core object (one pre-emption)",
                        "frames": "Probe/Train, Reset or unhandled (no transmitting handler)", "registry": "both records pre-registered" if registered else "both interfaces see their first frame"},
                desc="goto-instrument --isr: second interface's thread as an interrupt inside the real parseFrame of the first")


@prop("C17", ["sequential clause: two-world step per frame class (other interface's record registered before/after vs absent) + other record untouched + sends/getters carry the receiving context; with C02's determinism this gives trace equality for any sequential interleaving",
              "thread clause: bounded to two interfaces and ONE pre-emption (B's call atomic inside A's call) at accesses to file-scope shared objects of the core; finer interleavings are outside the claim",
              "known finding (not repaired): first frames racing lose one registration in lltd_state_for_iface (no lock/atomic in the port API)"])
def c17(tier, seed):
    il = [blkq("blk_interleave_emit_at%d" % k, "h_interleave", replace={}, K=1, unwind=34, no_std_checks=True, defines=["PREEMPT_AT=%d" % k, "V_PREEMPT"],
               bounds={"threads": "B's whole Emit runs inside the %d-th platform call of A's Emit (allocation, address getter, pause, transmit, transmit, release; one query per call index 0..6)" % k, "Emit": "one descriptor each, kinds {0,1}, any addresses/pause"},
               desc="second thread model: pre-emption at platform calls; both interfaces process an Emit; each must transmit exactly its own Probe/Train and ACK") for k in range(7)]
    # handler-level thread interleaving: A alone vs A with B's same-class handler inside A's k-th platform call
    thr = []
    for k in ((3,) if tier == "quick" else (0, 1, 2, 3, 4, 6, 9, 14, 20)):
        thr += q_rel(4, K=1, only=["discover", "query", "qltlv_icon", "emit", "probe"], preempt_at=k)
    tabiso = Query("c17_table_isolation", "c16_table.c", "h_isolation", unwind=17, backends=("cadical", "minisat", "kissat"), timeout=900, mem_gb=10, safety_for=("C01", "C17"),
                   bounds={"tables": "two session tables (two interfaces); B's table primed by add and/or find of a symbolic key, then find/add/remove/tick on A's table with the same key"},
                   desc="automata layer: session-table operations of one interface never return or touch entries of another interface's table (hidden shared state)")
    qs = q_rel(3) + [q_preempt(True), q_preempt(False), tabiso] + il + thr
    if tier == "thorough":
        more = q_rel(3, K=3)
        for q in more:
            q.name += "_K3"
        qs += more
    return qs


def c18_block_queries(K=2):
    qs = []
    fd = ["FAULTS"]
    maxd = (576 - 34) // 14
    for m in (0, 1):
        qs.append(q_safety_class(0, ["answerHello"], "fault_discover_mtufail%d" % m, K=K, defines=fd + ["HOSTLEN=33", "SSIDLEN=40", "FAULT_MTU=%d" % m], unwind=max(K + 4, 8)))
    rep_e = {"sendProbeMsg": "rec_sendProbeMsg"}
    qs.append(q_safety_class(2, ["parseEmit"], "fault_emit_loop", K=K, defines=fd, unwind=maxd + 2, replace_extra=rep_e))
    qs.append(q_safety_class(3, ["parseProbe"], "fault_probe", K=K, defines=fd))
    qs.append(q_safety_class(6, ["parseQuery"], "fault_query", K=K, defines=fd))
    qs.append(q_safety_class(8, [], "fault_reset", K=K, defines=fd))
    qs.append(q_safety_class(11, ["parseQueryLargeTlv"], "fault_qltlv", K=K, defines=fd + ["V_MEMCPY_RECORD"], unwind=36))
    qs.append(q_safety_class(255, [], "fault_other", K=K, defines=fd))
    return qs


def q_fault_emit_send():
    return blkq("blk_fault_emit_send", "h_emit_send", K=2, replace={}, defines=["FAULTS_SEND"], safety_for=("C01", "C18"),
                desc="real sendProbeMsg with failing allocation / refused transmits: buffers released on every path")


@prop("C18", ["fault schedule symbolic: the i-th lltd_port_malloc (i<8) and the i-th send fail iff flagged; MTU, address, icon, name and every attribute getter fail under independent flags - strictly contains 'fail exactly the k-th allocation' for every k",
              "'after the fault clears and a Reset arrives it behaves like a fresh responder' = faulty step ends in a state satisfying the record invariant (asserted here) + C09 from every such state",
              "the interface record exists before the faulty step (first-frame registration failure is the fresh-registry query)",
              "Emit under faults: descriptor walk with recording sendProbeMsg stub, and real sendProbeMsg alone with failing malloc/sends"])
def c18(tier, seed):
    qs = c18_block_queries()
    qs.append(q_fault_emit_send())
    qs.append(Query("c18_degraded", "c18_ctors.c", "h_degraded", unwind=17, backends=("cadical", "minisat", "kissat"), safety_for=("C01", "C18"), timeout=900,
                    bounds={"start-up": "each of the first 8 allocations may fail (automata without extra state, missing automata, missing table)", "afterwards": "tick, every band/mapping/table helper, tick - arbitrary states and clock"},
                    desc="degraded operation after start-up allocation faults: tick and helpers never dereference a missing part"))
    qs.append(Query("c18_ctors", "c18_ctors.c", "h_ctors", unwind=4, backends=("minisat", "cadical"), safety_for=("C01", "C18"),
                    bounds={"constructor": "symbolic choice of init_automata_mapping / enumeration / session / session_table_create", "allocations": "each of the first 8 may fail"},
                    desc="automata constructors under failing allocation: NULL or fully initialised, no dereference of a missing allocation, no leak"))
    return qs


def q_query_long(n=300, mtu=9216):
    return blkq("blk_query_long_n%d_%d" % (n, mtu), "h_query_long", live=["parseQuery"], K=1, frame_n=mtu, defines=["NLONG=%d" % n], unwind=n + 3, no_std_checks=True,
                timeout=2400, mem_gb=24, extra=["--object-bits", "13"] if n > 1000 else [],
                bounds={"record": "%d observations of arbitrary content (no uniqueness assumed)" % n, "MTU": mtu},
                desc="long observation record: count arithmetic beyond 8 bits at a jumbo MTU - all reported, all retired")


def q_probe_room(K=2):
    return blkq("blk_probe_room", "h_probe_room", live=["parseProbe"], K=K, unwind=K + 4, no_std_checks=True,
                bounds={"state": "observation counter at 299 (stands for 299 recorded observations), list prefix of 0..%d nodes" % K},
                desc="the memory cap leaves room for the 300 observations of the property's range")


def q_probe_cap(K=2):
    return blkq("blk_probe_cap", "h_probe_cap", live=["parseProbe"], K=K, unwind=K + 4, no_std_checks=True,
                bounds={"state": "observation counter at UINT32_MAX (stands for arbitrarily long floods), list prefix of 0..%d nodes" % K, "frame": "new distinct Probe/Train addressed to this station"},
                desc="existence of a cap on retained observations, independent of the cap's name or value")


@prop("C19", ["ledger kept by the verification port (live blocks / bytes); expected live set after every step = receive buffer + interface record + one block per observation + cached icon",
              "boundedness: per-step growth <= 1 observation (all classes) and no growth once the counter is at its maximum (cap existence); the icon is bounded by what the platform returns",
              "histories of any length by induction over the record invariant (count = list length <= cap)"])
def c19(tier, seed):
    qs = c01_block_queries(576, hello_pairs=((33, 31),))
    if tier == "thorough":
        qs += c01_block_queries(1500, hello_pairs=((40, 40),))
    qs += [q_probe_cap(), q_probe(tier, 3), q_query(tier, 3), q_query(tier, 5, frame_n=100, name="query_smallmtu"), q_reset(tier, 3), q_other(tier, 2), q_emit_send(), q_fault_emit_send(), q_emit_full(3), q_qltlv("alltypes_576"), q_discover(32, 32)]
    return qs


@prop("C02", ["per frame class (the seven classes partition the 256x256 (ToS,opcode) space; the split is asserted by unreachable-handler stubs): well-formedness oracle inside the transmit stub, exact per-opcode length rule, send-count bound",
              "Hello inner structure decided by the positional oracle of C04 (host id first, legal length per type, no type twice follows from the fixed positional chain, end marker last byte)",
              "determinism clause: two-world query per class - identical record and frame, independent fresh memory (CBMC heap objects are nondeterministic until written) - every transmitted byte (universally quantified index) and length equal",
              "MTU fixed to 576 per query except the symbolic-MTU queries named *_symmtu"])
def c02(tier, seed):
    qs = [q_query(tier, 3), q_query(tier, 5, frame_n=100, name="query_smallmtu"), q_probe(tier, 2), q_reset(tier, 2), q_other(tier, 2), q_sweep(tier),
          q_discover(0, 0), q_discover(33, 40), q_emit_send(), q_emit_full(3), q_emit_loop(576),
          q_qltlv("alltypes_576"), q_qltlv("alltypes_symmtu", frame_n=9216, mtu_min=576), q_query(tier, 3, frame_n=640, mtu_min=576, name="query_symmtu")]
    qs += q_rel(0) + q_query_boundary(tier) + q_emit_boundary()
    if tier == "thorough":
        qs += [q_discover(h, s) for h in LEN_EDGE for s in (1, 31)] + [q_query(tier, 29)]
    return qs


def q_discover_generic(h, s, K=2, big_endian=False):
    q = q_discover(h, s, K=K, big_endian=big_endian)
    q.name = q.name + "_generic"
    q.defines = q.defines + ["HELLO_GENERIC"]
    q.unwind = 34
    q.backends = ["cadical", "minisat", "kissat"]
    q.timeout = 1500; q.mem_gb = 16
    q.desc = "stage 2 (only after a positional failure): order-agnostic Hello decoder"
    return q
