"""Registry: property id -> list of solver queries (per tier)."""
from vlib import Query

COMMON_ASSUME = [
    "CBMC 6.11 machine model: x86-64 LP64, little-endian unless a query says big_endian",
    "port functions honour the contracts of lltdPort.h (getters write only their out-parameters; name getters write at most dst_len bytes); log functions have empty bodies",
    "allocation failure is off unless the query enables the fault schedule (C18)",
    "within one core call the clock does not advance",
]

ASSUME = {}
REG = {}


def prop(pid, assumptions=None):
    def deco(fn):
        REG[pid] = fn
        ASSUME[pid] = COMMON_ASSUME + list(assumptions or [])
        return fn
    return deco


def queries_for(pid, tier, seed=0):
    if pid not in REG:
        return []
    return REG[pid](tier, seed)


def assumptions_for(pid):
    return ASSUME.get(pid, COMMON_ASSUME)


# ------------------------------------------------------------------ C13
@prop("C13", ["r, Ni are full 32-bit symbolic; now_ms <= 2^64-65536 (no clock wrap)"])
def c13(tier, seed):
    b = {"r": "[0,2^32)", "Ni": "[0,2^32) (update) / [0,10000] (interval)", "begun": "{0,1}", "now_ms": "[0,2^64-65536]"}
    ex = ["--unsigned-overflow-check"]
    qs = [
        Query("c13_update", "c13_band.c", "h_update", unwind=3, extra=[], bounds=b, backends=("minisat", "cadical", "z3"),
              desc="band_update_stats vs wrap-free reference for all r, Ni"),
        Query("c13_update_nowrap", "c13_band.c", "h_update", unwind=3, extra=ex, bounds=b, backends=("minisat", "cadical", "z3"),
              desc="same with CBMC unsigned-overflow instrumentation inside band_update_stats (no wrap-around anywhere in the computation)"),
        Query("c13_interval", "c13_band.c", "h_interval", unwind=3, bounds=b, backends=("minisat", "cadical", "z3"),
              desc="band_choose_hello_time = now + max(6, ceil(80*Ni/30))"),
        Query("c13_mono", "c13_band.c", "h_mono", unwind=3, bounds=dict(b, r2="[r,2^32)"), backends=("minisat", "cadical", "z3"),
              desc="two-copy monotonicity r1<=r2"),
        Query("c13_heard", "c13_band.c", "h_heard", unwind=3, bounds=b, backends=("minisat", "cadical"),
              desc="band_on_hello_received bookkeeping"),
    ]
    return qs
