#!/usr/bin/env python3
"""Driver library: build harness with goto-cc from /repo's current tree, instrument,
solve with a CBMC back-end portfolio, triage (witness / known finding / violation),
extract counterexample inputs, replay natively, write evidence."""
import json, os, re, resource, shutil, signal, subprocess, sys, tempfile, threading, time
from concurrent.futures import ThreadPoolExecutor

VERIF = os.path.dirname(os.path.dirname(os.path.abspath(__file__)))
REPO = os.environ.get("VERIF_REPO", "/repo")
CORE = os.path.join(REPO, "lltdResponder")
HARN = os.path.join(VERIF, "harness")
NCPU = int(os.environ.get("VERIF_JOBS", "16"))

_slots = threading.BoundedSemaphore(NCPU)

BACKENDS = {
    "minisat": [],
    "cadical": ["--sat-solver", "cadical"],
    "kissat": ["--external-sat-solver", "kissat"],
    "z3": ["--z3"],
    "cvc5": ["--cvc5"],
}

BASE_FLAGS = ["--unwinding-assertions", "--slice-formula", "--drop-unused-functions", "--object-bits", "12"]
SAFETY_FLAGS = ["--pointer-overflow-check"]
NONDET_STATIC_RE = r".*/(lltdResponder|os)/.*\.c:(?!g_iface_states$|exitFlag$).*"  # CBMC 6 standard checks (bounds, pointer, div0, signed overflow, undefined shift, ...) are on by default


class Query:
    def __init__(self, name, src, entry, defines=None, unwind=None, unwindset=None, replace=None,
                 safety=True, extra=None, backends=("cadical", "minisat"), timeout=600, mem_gb=8,
                 big_endian=False, isr=None, includes=None, replay=True, desc="", bounds=None,
                 unwind_fail_is_violation=False, no_std_checks=False, expect_witness=True, remove_bodies=None, safety_for=("C01", "C18"), split=0, nondet_static=True, agree=1, guard=None):
        self.name = name; self.src = src; self.entry = entry
        self.defines = list(defines or []); self.unwind = unwind; self.unwindset = list(unwindset or [])
        self.replace = dict(replace or {}); self.safety = safety; self.extra = list(extra or [])
        self.backends = list(backends); self.timeout = timeout; self.mem_gb = mem_gb
        self.big_endian = big_endian; self.isr = isr; self.includes = list(includes or [])
        self.replay = replay; self.desc = desc; self.bounds = bounds or {}
        self.unwind_fail_is_violation = unwind_fail_is_violation
        self.no_std_checks = no_std_checks
        self.expect_witness = expect_witness
        self.remove_bodies = list(remove_bodies or [])
        self.safety_for = tuple(safety_for)
        self.split = split
        self.nondet_static = nondet_static
        self.guard = guard          # (aux label, expected bool): failures of this query count only if that auxiliary condition has this truth value
        self.agree = agree          # number of back ends whose verdicts must coincide (thorough tier: 2)


class QResult:
    def __init__(self, q):
        self.q = q; self.status = "inconclusive"; self.props = []; self.backend = None
        self.wall = 0.0; self.solver_s = None; self.error = None; self.functions = []
        self.failed = []; self.witness_ok = None; self.unwind_failed = []; self.rss_mb = None
        self.witness_reached = []; self.witness_missed = []
        self.nprops = 0; self.nsuccess = 0; self.undecided = []; self.stats = {}; self.agreeing_backends = []; self.aux = {}


def run(cmd, **kw):
    return subprocess.run(cmd, stdout=subprocess.PIPE, stderr=subprocess.PIPE, text=True, **kw)


def _limit(mem_gb):
    def f():
        os.setsid()
        lim = int(mem_gb * (1 << 30))
        resource.setrlimit(resource.RLIMIT_AS, (lim, lim))
    return f


def build(q, bdir):
    os.makedirs(bdir, exist_ok=True)
    gb = os.path.join(bdir, "q.gb")
    cmd = ["goto-cc", "-DVERIF_CBMC", "-o", gb, "--function", q.entry, "-I", HARN, "-I", CORE, "-I", REPO]
    for i in q.includes:
        cmd += ["-I", i]
    for d in q.defines:
        cmd.append("-D" + d)
    if q.big_endian:
        cmd.append("--big-endian")
    cmd.append(os.path.join(HARN, q.src))
    r = run(cmd, cwd=bdir)
    if r.returncode != 0:
        raise RuntimeError("goto-cc failed for %s:\n%s\n%s" % (q.name, r.stdout[-3000:], r.stderr[-3000:]))
    cur = gb
    if q.replace:
        nxt = os.path.join(bdir, "q.rc.gb")
        arg = []
        for k, v in q.replace.items():
            arg += ["--replace-calls", "%s:%s" % (k, v)]
        r = run(["goto-instrument"] + arg + [cur, nxt], cwd=bdir)
        if r.returncode != 0:
            raise RuntimeError("goto-instrument --replace-calls failed for %s:\n%s\n%s" % (q.name, r.stdout[-3000:], r.stderr[-3000:]))
        cur = nxt
    if q.remove_bodies:
        nxt = os.path.join(bdir, "q.rb.gb")
        arg = []
        for k in q.remove_bodies:
            arg += ["--remove-function-body", k]
        r = run(["goto-instrument"] + arg + [cur, nxt], cwd=bdir)
        if r.returncode != 0:
            raise RuntimeError("goto-instrument --remove-function-body failed for %s:\n%s" % (q.name, r.stderr[-3000:]))
        cur = nxt
    if q.nondet_static:
        # hidden state of the core (function-local statics, new file-scope objects) starts arbitrary: it stands for whatever
        # earlier calls - also on other interfaces - may have left there. The interface registry is set up by the harness.
        nxt = os.path.join(bdir, "q.ns.gb")
        r = run(["goto-instrument", "--nondet-static-matching", NONDET_STATIC_RE, cur, nxt], cwd=bdir)
        if r.returncode != 0:
            raise RuntimeError("goto-instrument --nondet-static-matching failed for %s:\n%s" % (q.name, r.stderr[-2000:]))
        cur = nxt
    if q.isr:
        nxt = os.path.join(bdir, "q.isr.gb")
        r = run(["goto-instrument", "--isr", q.isr, cur, nxt], cwd=bdir)
        if r.returncode != 0:
            raise RuntimeError("goto-instrument --isr failed for %s:\n%s\n%s" % (q.name, r.stdout[-3000:], r.stderr[-3000:]))
        cur = nxt
    return cur


def reachable_functions(gb, bdir):
    r = run(["goto-instrument", "--reachable-call-graph", gb], cwd=bdir)
    fns = set()
    for line in r.stdout.splitlines():
        m = re.match(r"^(\S+) -> (\S+)$", line.strip())
        if m:
            fns.add(m.group(1)); fns.add(m.group(2))
    return sorted(f for f in fns if not f.startswith("__CPROVER"))


def cbmc_cmd(q, gb, backend, extra=None):
    cmd = ["cbmc", gb] + BASE_FLAGS
    if q.no_std_checks:
        cmd.append("--no-standard-checks")
    elif q.safety:
        cmd += SAFETY_FLAGS
    if q.unwind is not None:
        cmd += ["--unwind", str(q.unwind)]
    # CBMC's library model of memcmp is a byte loop: give it room for the small constant-size comparisons a refactor may introduce
    cmd += ["--unwindset", ",".join(["memcmp.0:72"] + list(q.unwindset))]
    cmd += q.extra
    cmd += BACKENDS[backend]
    cmd += ["--json-ui", "--verbosity", "8"]
    if extra:
        cmd += extra
    return cmd


def parse_json_ui(text):
    try:
        data = json.loads(text)
    except Exception:
        # truncated output (killed) -> nothing
        return None, None, "unparseable cbmc output", {}
    results = None; err = None; runtime = None; symex = [None]; size = [0, 0]
    for el in data:
        if isinstance(el, dict):
            if "result" in el:
                results = el["result"]
            if el.get("messageType") == "ERROR":
                err = (err or "") + el.get("messageText", "") + "\n"
            if el.get("messageType") == "STATUS-MESSAGE":
                m = re.search(r"Runtime decision procedure: ([0-9.e+-]+)s", el.get("messageText", ""))
                if m:
                    runtime = (runtime or 0.0) + float(m.group(1))
                m = re.search(r"Runtime Symex: ([0-9.e+-]+)s", el.get("messageText", ""))
                if m:
                    symex[0] = (symex[0] or 0.0) + float(m.group(1))
                m = re.search(r"^(\d+) variables, (\d+) clauses", el.get("messageText", ""))
                if m:
                    size[0] = max(size[0], int(m.group(1))); size[1] = max(size[1], int(m.group(2)))
    return results, runtime, err, {"symex_s": symex[0], "sat_variables": size[0], "sat_clauses": size[1]}


def _run_backend(q, gb, backend, bdir, box, extra=None):
    """Run one back end; store (backend, results, runtime, err, rc) in box if conclusive."""
    cmd = cbmc_cmd(q, gb, backend, extra)
    env = dict(os.environ); env["TMPDIR"] = bdir
    out = os.path.join(bdir, "out.%s.json" % backend)
    _slots.acquire()
    try:
        if box.get("done"):
            return
        with open(out, "w") as fo:
            p = subprocess.Popen(["/usr/bin/time", "-f", "RSSKB=%M", "-o", out + ".rss"] + cmd, stdout=fo, stderr=subprocess.PIPE, cwd=bdir, env=env,
                                 preexec_fn=_limit(q.mem_gb), text=True)
        box.setdefault("procs", []).append(p)
        t0 = time.time()
        try:
            _, se = p.communicate(timeout=q.timeout)
        except subprocess.TimeoutExpired:
            try: os.killpg(p.pid, signal.SIGKILL)
            except Exception: pass
            p.communicate()
            box.setdefault("notes", []).append("%s: timeout %ds" % (backend, q.timeout))
            return
        dt = time.time() - t0
        if box.get("done") and p.returncode not in (0, 10):
            return
        rc = p.returncode
        text = open(out).read()
        results, runtime, err, stats = parse_json_ui(text)
        rss = None
        try:
            m = re.search(r"RSSKB=(\d+)", open(out + ".rss").read()); rss = int(m.group(1)) // 1024 if m else None
        except Exception:
            pass
        if rc in (0, 10) and results is not None:
            with box["lock"]:
                box.setdefault("verdicts", []).append((backend, {x.get("property"): x.get("status") for x in results}))
                if "res" not in box:
                    box["res"] = (backend, results, runtime, dt, rss)
                    box["stats"] = stats
                if len(box["verdicts"]) >= box.get("need", 1):
                    box["done"] = True
            if box.get("done"):
                # kill the others
                for op in box.get("procs", []):
                    if op is not p and op.poll() is None:
                        try: os.killpg(op.pid, signal.SIGKILL)
                        except Exception: pass
        else:
            box.setdefault("notes", []).append("%s: rc=%s %s %s" % (backend, rc, (err or "")[:400], (se or "")[-300:]))
    finally:
        _slots.release()


def solve(q, gb, bdir, backends=None, extra=None):
    box = {"lock": threading.Lock(), "need": (1 if (backends is not None or extra) else max(1, min(q.agree, len(q.backends))))}
    ths = []
    for b in (backends or q.backends):
        t = threading.Thread(target=_run_backend, args=(q, gb, b, bdir, box, extra))
        t.start(); ths.append(t)
    for t in ths:
        t.join()
    return box


def list_properties(q, gb, bdir):
    cmd = cbmc_cmd(q, gb, q.backends[0], ["--show-properties"])
    r = run(cmd, cwd=bdir)
    try:
        data = json.loads(r.stdout)
    except Exception:
        raise RuntimeError("cannot list properties of %s: %s" % (q.name, r.stdout[-500:] + r.stderr[-500:]))
    for el in data:
        if isinstance(el, dict) and "properties" in el:
            return el["properties"]
    return []


def solve_split(q, gb, bdir):
    """Property-parallel solving: the joint query of some harnesses exhausts memory although every
    property's own cone of influence is small. Each group of properties is one cbmc run
    (--property ...), same flags and bounds; results are merged."""
    props = list_properties(q, gb, bdir)
    names = [p["name"] for p in props]
    groups = []
    cur = []
    for p in props:
        cls = p.get("class", "")
        if cls == "assertion":
            groups.append([p["name"]])
        else:
            cur.append(p["name"])
            if len(cur) >= max(q.split, 1) * 8:
                groups.append(cur); cur = []
    if cur:
        groups.append(cur)
    merged = []; notes = []; tot_rt = 0.0; max_rss = 0; lock = threading.Lock(); used = set()
    t0 = time.time()

    def work(idx_grp):
        idx, grp = idx_grp
        gdir = os.path.join(bdir, "g%d" % idx)
        os.makedirs(gdir, exist_ok=True)
        extra = []
        for n in grp:
            extra += ["--property", n]
        b = solve(q, gb, gdir, extra=extra)
        return grp, b

    with ThreadPoolExecutor(max_workers=NCPU) as ex:
        for grp, b in ex.map(work, list(enumerate(groups))):
            if "res" not in b:
                notes.append("group %s...: %s" % (grp[0], "; ".join(b.get("notes", ["no verdict"]))[:300]))
                continue
            backend, results, runtime, dt, rss = b["res"]
            used.add(backend)
            tot_rt += runtime or 0.0
            max_rss = max(max_rss, rss or 0)
            want = set(grp)
            for p in results:
                if p.get("property") in want:
                    merged.append(p)
    box = {}
    if notes:
        box["notes"] = notes
        return box
    box["res"] = ("+".join(sorted(used)) + "/split%d" % len(groups), merged, tot_rt, time.time() - t0, max_rss)
    return box


def classify_prop(p):
    """-> (kind, label). kind in witness/unwind/assert/safety"""
    name = p.get("property", ""); desc = p.get("description", "")
    if desc.startswith("WITNESS:"):
        return "witness", desc
    if desc.startswith("AUX:"):
        return "aux", desc
    if ".unwind." in name or "unwinding assertion" in desc or ".recursion" in name:
        return "unwind", desc
    if ".assertion." in name:
        return "assert", desc
    return "safety", desc


def prop_key(qname, p):
    """Stable key of a property for known-findings matching: never a line number."""
    kind, label = classify_prop(p)
    fn = p.get("sourceLocation", {}).get("function", "?")
    if kind == "assert":
        return "%s|assert|%s" % (qname, label)
    cls = p.get("property", "").split(".")
    cls = cls[-2] if len(cls) >= 2 else "?"
    expr = re.sub(r"\s+", " ", label)
    return "%s|%s|%s|%s" % (qname, fn, cls, expr)


def run_query(q, workdir):
    res = QResult(q)
    bdir = os.path.join(workdir, q.name)
    t0 = time.time()
    try:
        gb = build(q, bdir)
        res.gb = gb
        res.functions = reachable_functions(gb, bdir)
    except Exception as e:
        res.status = "build_error"; res.error = str(e); res.wall = time.time() - t0
        return res
    if q.split:
        box = solve_split(q, gb, bdir)
    else:
        box = solve(q, gb, bdir)
    res.wall = time.time() - t0
    if "res" not in box:
        res.status = "inconclusive"; res.error = "; ".join(box.get("notes", ["no verdict"]))
        return res
    backend, results, runtime, dt, rss = box["res"]
    vs = box.get("verdicts", [])
    res.agreeing_backends = [b for b, _ in vs]
    if len(vs) >= 2:
        ref = vs[0][1]
        for b2, v2 in vs[1:]:
            diff = [k for k in ref if k in v2 and ref[k] != v2[k] and "UNKNOWN" not in (ref[k], v2[k])]
            if diff:
                res.status = "inconclusive"; res.error = "back ends disagree (%s vs %s) on %s" % (vs[0][0], b2, diff[:3]); res.wall = time.time() - t0
                return res
    res.backend = backend; res.solver_s = runtime; res.props = results; res.rss_mb = rss
    res.stats = box.get("stats", {})
    res.nprops = len(results)
    for p in results:
        kind, label = classify_prop(p)
        st = p.get("status")
        if kind == "witness":
            (res.witness_reached if st == "FAILURE" else res.witness_missed).append(label)
        elif kind == "aux":
            res.aux[label] = (st == "SUCCESS") and res.aux.get(label, True)
        elif st == "SUCCESS":
            res.nsuccess += 1
        elif st == "FAILURE":
            if kind == "unwind":
                res.unwind_failed.append(p)
            else:
                res.failed.append(p)
        else:
            res.undecided.append(p)
    if res.undecided and not res.failed:
        # CBMC leaves properties UNKNOWN only alongside failures; without a failure this is no verdict
        res.status = "inconclusive"; res.error = "%d properties undecided (%s ...)" % (len(res.undecided), res.undecided[0].get("property"))
        return res
    res.status = "done"
    return res


# ---------------------------------------------------------------- counterexamples
def extract_inputs(trace):
    """last assignment per leaf of the `in` struct (and other harness input globals)"""
    vals = {}
    for st in trace:
        if st.get("stepType") != "assignment":
            continue
        lhs = st.get("lhs", "")
        if not (lhs == "in" or lhs.startswith("in.") or lhs.startswith("in[")):
            continue
        v = st.get("value", {})
        _flatten(lhs, v, vals)
    return vals


def _flatten(lhs, v, vals):
    if "members" in v:
        for m in v["members"]:
            _flatten("%s.%s" % (lhs, m["name"]), m["value"], vals)
    elif "elements" in v:
        for e in v["elements"]:
            _flatten("%s[%s]" % (lhs, e["index"]), e["value"], vals)
    elif "data" in v:
        d = v["data"]
        vals[re.sub(r"\[(\d+)[lLuU]*\]", r"[\1]", lhs)] = d
    # unknown/pointer values ignored


def c_literal(d):
    d = str(d)
    if d in ("TRUE", "true"): return "1"
    if d in ("FALSE", "false"): return "0"
    m = re.match(r"^(-?\d+)[a-zA-Z]*$", d)
    if m:
        n = int(m.group(1))
        if n < 0: return "(%d)" % n
        return "%dull" % n if n > 0x7fffffff else str(n)
    m = re.match(r"^'(.*)'$", d)
    if m: return d
    return None


def get_trace(q, gb, bdir, backend, propname):
    extra = ["--trace", "--property", propname]
    q2 = q
    box = solve(q2, gb, bdir, backends=[backend], extra=extra)
    if "res" not in box:
        return None
    _, results, _, _, _ = box["res"]
    for p in results:
        if p.get("property") == propname and "trace" in p:
            return p["trace"]
    return None


def native_replay(q, rdir, initfile):
    exe = os.path.join(rdir, "replay.%s" % q.name)
    cmd = ["gcc", "-std=gnu11", "-g", "-O0", "-w", "-fsanitize=address,undefined", "-fno-sanitize-recover=all",
           "-I", rdir, "-I", HARN, "-I", CORE, "-I", REPO, "-DHARNESS=" + q.entry]
    for i in q.includes:
        cmd += ["-I", i]
    for d in q.defines:
        cmd.append("-D" + d)
    cmd += [os.path.join(HARN, q.src), "-o", exe]
    r = run(cmd)
    if r.returncode != 0:
        return "build_failed", (r.stderr or "")[-2000:]
    try:
        env = dict(os.environ); env["ASAN_OPTIONS"] = "detect_leaks=0:abort_on_error=0"; env["UBSAN_OPTIONS"] = "print_stacktrace=0:halt_on_error=1"
        r = run([exe], timeout=120, env=env)
    except subprocess.TimeoutExpired:
        return "timeout", ""
    finally:
        try: os.remove(exe)
        except Exception: pass
    tail = (r.stderr or "")[-1500:]
    if r.returncode == 0:
        return "not_reproduced", tail
    if r.returncode == 77:
        return "assumption_unmet", tail
    return "reproduced", tail
