#!/usr/bin/env python3
"""Regenerates MANIFEST.json from the table below (keeps it schema-valid at all times)."""
import json, os, sys
sys.path.insert(0, os.path.join(os.path.dirname(os.path.abspath(__file__)), "lib"))

TECH = "bounded symbolic model checking of the real C sources (goto-cc + CBMC 6.11, SAT/SMT portfolio)"

CLAIMED = {
    # id: (text, note, design_ref)
    "C01": ("CBMC's memory-safety/UB instrumentation (bounds, pointer validity incl. dangling/NULL, pointer overflow, signed overflow, shifts, division, double free) over the real parseFrame and every handler chain, derive_session_event, lltd_esp32_handle_frame and the automata steps, with the frame as arbitrary bytes in an MTU-sized heap object and the interface record as an arbitrary valid pre-state (one inductive step = frame sequences of any length). Bounded in observation-list length, MTU set and unwindings, all stated in the evidence.",
            "frame classes split by unreachable-handler stubs (split asserted); MTU 576 quick (+1500, 9216 thorough); payload copy of QueryLargeTlv via the port-memcpy contract; one known finding (classifier station scan) with an excluding variant that must pass.", "5/C01"),
    "C02": ("byte-level decoder asserted inside the transmit stub for every frame each class can send (EtherType, version, reserved, real source, opcode set, exact per-opcode length, Hello chain positional), send-count bound per class, and a two-world determinism query per class (independent fresh memory, universally quantified byte index).",
            "Hello structure is decided by the positional oracle; if only positional conditions fail the driver runs the order-agnostic decoder (about 13 min) before reporting, so a legal re-ordering is not an alarm; MTU 576 except *_symmtu and the boundary-MTU model queries (60-63, 92-94, 100); hidden static state and unknown record fields start arbitrary.", "5/C02"),
    "C03": ("Discover class through real parseFrame/answerHello from an arbitrary valid record: accepted => exactly one Hello with every header / Hello-header byte asserted against the Discover's bytes; rejected => silence; generation stored per service (sweep query).",
            "hostname/SSID length concrete per query; acceptance rule from C05.", "5/C03"),
    "C04": ("positional TLV oracle over the Hello built from a fully symbolic attribute set (all getters failing independently), both byte orders (goto-cc --big-endian), name lengths swept by the driver (6x6 boundary pairs quick, full 41x41 grid thorough); Linux port getters over a symbolic network_interface_t.",
            "name lengths are case-split, not symbolic; the value emitted for a failed getter is only required to be determined (two-world query); getifaddrs/gethostname-based Linux getters not encoded.", "5/C04"),
    "C05": ("real parseFrame pre-step and ToS/opcode switch with recording handler stubs for all 256x256 (ToS,opcode) pairs in the states 'no mapper' and 'mapper active': step rules on the mapper identity; Reset and everything-else classes with real code. Histories follow by induction over the rules.",
            "commands Emit/Query/QueryLargeTlv covered under the property's domain restriction in their class queries.", "5/C05"),
    "C06": ("assume/guarantee decomposition over real code: descriptor walk (real parseFrame+parseEmit, recording sendProbeMsg stub, declared count 0..0xFFFF, every descriptor slot symbolic, pointer checks on) + real sendProbeMsg alone (ordered sleep/send events, ACK) + undecomposed path for n<=3 (12 thorough).",
            "MTU 576 (1500 thorough); kinds in {0,1}; Emit from the active mapper or none active; transmit succeeds.", "5/C06"),
    "C07": ("Probe/Train step and Query step from a symbolic observation list: record-once, de-duplication, QueryResp count/more/descriptors (none invented, none twice, bijection by distinct keys), addressing, seq, post-state = unreported remainder; Reset empties. Conservation over histories by induction on the list.",
            "K=3 quick, K=29 > capacity 27 thorough; capacity crossing also by the small-MTU model query (MTU 100, outside the property's MTU range, same code).", "5/C07"),
    "C08": ("QueryLargeTlv class with symbolic type, offset 0..65535, data size 0..32768, MTU 576 and symbolic [576,9216]: per-call chunk relation (length, more flag, progress, containment, seq, empty cases, seq 0 ignored) and ownership; reassembly by induction on the offset.",
            "payload bytes via the port-memcpy contract (source pointer+offset, destination, length asserted; regions readable/writable); hardware id contract NUL-free UCS-2LE.", "5/C08"),
    "C09": ("relational two-world queries per frame class: (A) Reset leaves a record equal to a fresh one up to stale mapper addresses; (B) records differing only in those stale addresses give identical output and equivalent post-records (induction => continuations of any length); plus direct (history.Reset.c) vs (fresh.c) with the record created by the real code.",
            "the relation lets fields differ that are dead at the start of every request (stale mapper addresses while no mapper is active, stored sequence/generation numbers); continuation classes: Emit <= 3 descriptors, Hello name lengths 33/7, K=2 (3 thorough); same platform data in both worlds.", "5/C09"),
    "C10": ("the 32 bytes the real sendProbeMsg of responder A transmits for a descriptor aimed at B are delivered into B's receive buffer and processed by the real parseFrame/parseProbe of B (second context), then B's QueryResp is decoded: observation with A as source present.",
            "one descriptor per query (Emit = independent calls, C06); B's own list arbitrary without this pair.", "5/C10"),
    "C11": ("real derive_session_event (no LLTD_TESTING) on a symbolic 576-byte (1500 thorough) Discover/Reset/Hello/other frame, symbolic own address, symbolic session table: reference computed from raw bytes at 6-byte stride, position as a symbolic index.",
            "station count restricted to what the buffer holds; count 0 unconstrained; at most one table entry matches the frame's key.", "5/C11"),
    "C12": ("one automata_tick from a fully arbitrary automata/table/clock state with a recording send_hello (<=1 send, purposeful, >=1000 ms since last, timestamp := now, inactivity rule) + every other public operation shown unable to send or write the timestamp => pacing for every interleaving by induction; two-tick cross-check in thorough.",
            "clock >= 1 ms, < 2^62, ms and s clocks independent; Darwin glue modelled by callback + shared timestamp.", "5/C12"),
    "C13": ("SAT/SMT verdict over all 2^32 values of r and of the prior count (and all pairs r1<=r2) for band_update_stats / band_choose_hello_time / band_on_hello_received against a wrap-free reference; the property's quantifier is closed completely inside each query.",
            "clock assumed not to wrap (now <= 2^64-65536).", "5/C13"),
    "C14": ("exhaustive symbolic single step of switch_state_mapping on the table built by the real constructor (state x input in [-128,255] x every elapsed time) against a reference transition function, and the tick-driven 30 s rule with an arbitrary session table.",
            "last_ts <= now; histories by induction (memory = state + last timestamp).", "5/C14"),
    "C15": ("exhaustive symbolic single step of switch_state_session (4 states x events 0..7 x every elapsed time) against the life-cycle of the property text.",
            "events outside 0..7 unspecified; last_ts <= now.", "5/C15"),
    "C16": ("each session-table operation (add, find, remove, clear, completion update, expiry tick) from an arbitrary 16-entry table satisfying the representation invariant, post-state compared with a declarative specification and the invariant re-established => operation sequences of any length and any number of keys.",
            "one operation per query; invariant R is the induction hypothesis.", "5/C16"),
    "C17": ("sequential: two-world step per class (other interface's record registered before/after vs absent; other record untouched; sends and platform calls carry the receiving context). Threads: goto-instrument --isr models the second interface's thread as an interrupt at every access of the real code to shared core objects.",
            "thread clause bounded to two interfaces and one pre-emption, at registry accesses (--isr) or inside a platform call (two further models); oracles are relational (same result as without pre-emption / without the other interface); known finding: first frames racing lose a registration (lltd_state_for_iface).", "5/C17"),
    "C18": ("class queries re-run with a symbolic fault schedule (i-th allocation / send fails iff flagged, every getter incl. MTU/address/icon/name fails independently) under full safety instrumentation + allocation ledger + record invariant; constructors under failing allocation.",
            "record exists before the faulty step; 'Reset afterwards == fresh' via invariant + C09.", "5/C18"),
    "C19": ("allocation ledger of the verification port asserted after every class step (live = receive buffer + record + observations + cached icon), per-step growth <= 1 observation, after Reset only the record, and existence of a cap (no growth with the counter at its maximum).",
            "histories by induction over the record invariant.", "5/C19"),
}

NOT_APPLICABLE = {
    "C20": "statement about undefined symbols of compiler-produced object files over a compiler x flag matrix and about source text (no OS headers/macros): there is no input, state or schedule to make symbolic and CBMC never sees gcc/clang output (goto-cc has its own front end and models memcpy/memset itself); deciding it needs nm/grep over a build matrix, i.e. a different technique (DESIGN.md section 7)",
}

ALL = ["C%02d" % i for i in range(1, 21)]


def main():
    checks = []
    for pid in ALL:
        if pid in CLAIMED:
            text, note, ref = CLAIMED[pid]
            checks.append({
                "property_id": pid,
                "quick_cmd": "python3 check.py %s --tier quick" % pid,
                "thorough_cmd": "python3 check.py %s --tier thorough" % pid,
                "evidence_file": "/verif/evidence/%s.json" % pid,
                "replay_cmd_template": "python3 check.py %s --replay {path}" % pid,
                "engine": "cbmc-portfolio",
                "level_claimed": {"category": "model_checking", "text": text, "design_ref": "DESIGN.md section " + ref},
                "level_note": note,
                "technique": TECH,
            })
    na = []
    for pid in ALL:
        if pid not in CLAIMED:
            na.append({"property_id": pid, "reason": NOT_APPLICABLE.get(pid, "check not built yet in this revision of /verif (planned in DESIGN.md); nothing is claimed")})
    m = {
        "version": 1,
        "setup_cmd": "cbmc --version && goto-cc --version && python3 -c \"import json; json.load(open('MANIFEST.json'))\"",
        "hooks": {
            "guard": "LLTD_VERIF",
            "enable": "no source hooks are needed: harnesses #include the repository's .c files to reach file-static items and are compiled by goto-cc with -DVERIF_CBMC (a harness-side define; nothing in /repo tests it)",
            "baseline_off_cmd": "cd /repo && CMOCKA_MESSAGE_OUTPUT=TAP make -k test",
            "source_commits": [],
            "add_only": True,
        },
        "engines": [{"name": "cbmc-portfolio", "path": "check.py", "serves_properties": sorted(CLAIMED),
                     "kind_free_text": "CBMC 6.11 bounded symbolic model checking of /repo's C sources compiled by goto-cc on every run; back-end portfolio MiniSat/CaDiCaL/kissat/z3; counterexamples replayed natively under ASan/UBSan"}],
        "checks": checks,
        "not_applicable": na,
        "notes": "exit 0 = all queries UNSAT within stated bounds and witnesses reachable; exit 1 + VIOLATION line = counterexample; exit 2 = machinery problem (build error, vacuous harness, loop bound exceeded, solver inconclusive). Known findings: known_findings.jsonl.",
    }
    with open(os.path.join(os.path.dirname(os.path.abspath(__file__)), "MANIFEST.json"), "w") as f:
        json.dump(m, f, indent=1)
    print("MANIFEST.json: %d checks, %d not_applicable" % (len(checks), len(na)))


if __name__ == "__main__":
    main()
