#!/usr/bin/env python3
"""Regenerates MANIFEST.json from the table below (keeps it schema-valid at all times)."""
import json, os, sys
sys.path.insert(0, os.path.join(os.path.dirname(os.path.abspath(__file__)), "lib"))

TECH = "bounded symbolic model checking of the real C sources (goto-cc + CBMC 6.11, SAT/SMT portfolio)"

CLAIMED = {
    # id: (text, note, design_ref)
    "C13": ("SAT/SMT verdict over all 2^32 values of r and of the prior count (and all pairs r1<=r2) for band_update_stats / band_choose_hello_time / band_on_hello_received against a wrap-free reference; no sampling - the quantifier of the property is closed completely inside each query; loops (BETA) fully unwound with unwinding assertions.",
            "trusts CBMC's C semantics and the back ends; clock assumed not to wrap (now <= 2^64-65536).", "5/C13"),
}

NOT_APPLICABLE = {
    "C20": "statement about undefined symbols of compiler-produced object files over a compiler x flag matrix and about source text (no OS headers/macros): there is no input, state or schedule to make symbolic and CBMC never sees gcc/clang output (goto-cc has its own front end and models memcpy/memset itself); deciding it needs nm/grep over a build matrix, i.e. a different technique (DESIGN.md section 7)",
}

ALL = ["C%02d" % i for i in range(1, 21)]


def main():
    checks = []
    for pid in ALL:
        if pid in CLAIMED:
            text, note, ref = CLAIMED[pid]
            checks.append({
                "property_id": pid,
                "quick_cmd": "python3 check.py %s --tier quick" % pid,
                "thorough_cmd": "python3 check.py %s --tier thorough" % pid,
                "evidence_file": "/verif/evidence/%s.json" % pid,
                "replay_cmd_template": "python3 check.py %s --replay {path}" % pid,
                "engine": "cbmc-portfolio",
                "level_claimed": {"category": "model_checking", "text": text, "design_ref": "DESIGN.md section " + ref},
                "level_note": note,
                "technique": TECH,
            })
    na = []
    for pid in ALL:
        if pid not in CLAIMED:
            na.append({"property_id": pid, "reason": NOT_APPLICABLE.get(pid, "check not built yet in this revision of /verif (planned in DESIGN.md); nothing is claimed")})
    m = {
        "version": 1,
        "setup_cmd": "cbmc --version && goto-cc --version && python3 -c \"import json; json.load(open('MANIFEST.json'))\"",
        "hooks": {
            "guard": "LLTD_VERIF",
            "enable": "no source hooks are needed: harnesses #include the repository's .c files to reach file-static items and are compiled by goto-cc with -DVERIF_CBMC (a harness-side define; nothing in /repo tests it)",
            "baseline_off_cmd": "cd /repo && CMOCKA_MESSAGE_OUTPUT=TAP make -k test",
            "source_commits": [],
            "add_only": True,
        },
        "engines": [{"name": "cbmc-portfolio", "path": "check.py", "serves_properties": sorted(CLAIMED),
                     "kind_free_text": "CBMC 6.11 bounded symbolic model checking of /repo's C sources compiled by goto-cc on every run; back-end portfolio MiniSat/CaDiCaL/kissat/z3; counterexamples replayed natively under ASan/UBSan"}],
        "checks": checks,
        "not_applicable": na,
        "notes": "exit 0 = all queries UNSAT within stated bounds and witnesses reachable; exit 1 + VIOLATION line = counterexample; exit 2 = machinery problem (build error, vacuous harness, loop bound exceeded, solver inconclusive). Known findings: known_findings.jsonl.",
    }
    with open(os.path.join(os.path.dirname(os.path.abspath(__file__)), "MANIFEST.json"), "w") as f:
        json.dump(m, f, indent=1)
    print("MANIFEST.json: %d checks, %d not_applicable" % (len(checks), len(na)))


if __name__ == "__main__":
    main()
