/* Demonstration for D9 (C19): a flood of Probe frames with pairwise distinct sources and no Query.
 * Before the fix the responder retains one block per frame without bound.
 * build: gcc -O1 -w -I/repo/lltdResponder -I/verif/harness flood.c && ./a.out 100000 */
#include "vport.c"
#include "lltdWire.c"
#include "lltdTlvOps.c"
#include "lltdBlock.c"
static void on_send(void *c, const uint8_t *f, size_t n) { (void)c; (void)f; (void)n; }
static void on_sleep(uint32_t ms) { (void)ms; }
int main(int argc, char **argv) {
    unsigned long n = argc > 1 ? strtoul(argv[1], 0, 10) : 100000;
    static vcfg c; c.mtu = 576; c.mac[5] = 1;
    uint8_t *f = calloc(1, 576);
    f[12] = 0x88; f[13] = 0xD9; f[14] = 1; f[15] = 0; f[17] = opcode_probe; f[23] = 1; /* real destination = own */
    for (unsigned long i = 0; i < n; i++) {
        f[6] = i >> 24; f[7] = i >> 16; f[8] = i >> 8; f[9] = i;          /* distinct Ethernet source */
        parseFrame(f, &c);
    }
    printf("frames=%lu live_blocks=%ld live_bytes=%lu\n", n, g_live_blocks, g_live_bytes);
    return g_live_blocks > 2000;
}
