/* Demonstration for known finding D11 (C17): two interfaces' receive threads, released together,
 * see their first frame at the same moment. ThreadSanitizer reports the unsynchronised
 * read-modify-write of g_iface_states in lltd_state_for_iface (lltdBlock.c); with an unlucky
 * schedule one registration is lost (st->next = g_iface_states; g_iface_states = st in both threads).
 * build: clang -fsanitize=thread -g -O1 -I/repo/lltdResponder -I/verif/harness tsan_race.c -lpthread */
#include <pthread.h>
#include <stdio.h>
#include <string.h>
#include <stdlib.h>
#include "vport.c"
#include "lltdWire.c"
#include "lltdTlvOps.c"
#include "lltdBlock.c"
static void on_send(void *c, const uint8_t *f, size_t n) { (void)c; (void)f; (void)n; }
static void on_sleep(uint32_t ms) { (void)ms; }
static pthread_barrier_t bar;
static vcfg cfg[2];
static void *rx(void *arg) {
    vcfg *c = (vcfg *)arg;
    uint8_t *frame = calloc(1, 576);
    frame[12] = 0x88; frame[13] = 0xD9; frame[14] = 1; frame[15] = 0; frame[17] = opcode_reset;
    pthread_barrier_wait(&bar);
    parseFrame(frame, c);
    free(frame);
    return 0;
}
int main(void) {
    pthread_t t[2];
    pthread_barrier_init(&bar, 0, 2);
    for (int i = 0; i < 2; i++) { memset(&cfg[i], 0, sizeof cfg[i]); cfg[i].mtu = 576; cfg[i].mac[5] = (uint8_t)(i + 1); }
    for (int i = 0; i < 2; i++) pthread_create(&t[i], 0, rx, &cfg[i]);
    for (int i = 0; i < 2; i++) pthread_join(t[i], 0);
    int n = 0; for (lltd_iface_state *s = g_iface_states; s; s = s->next) n++;
    printf("records registered: %d (expected 2)\n", n);
    return 0;
}
