#!/usr/bin/env python3
"""eval_round.py [-j N] <seed> [...]: confirm seeded changes and run the target property's quick check, several seeds at a time.
Unlike eval_seed.py nothing touches /repo: each seed gets its own scratch worktree (/tmp/wt_e_<seed>, removed afterwards);
the demonstration is run there without and with the patch, the baseline tests with the patch, and the check through VERIF_REPO.
Writes seeded/<seed>/eval.json and fills confirmed_by_me / detected_by_quick_check / first_violation in meta.json."""
import json, os, re, subprocess, sys, time
from concurrent.futures import ThreadPoolExecutor
VERIF = os.path.dirname(os.path.dirname(os.path.abspath(__file__)))


def sh(cmd, cwd=None, env=None, timeout=3600):
    r = subprocess.run(cmd, shell=True, cwd=cwd, env=env, stdout=subprocess.PIPE, stderr=subprocess.STDOUT, text=True, timeout=timeout)
    return r.returncode, r.stdout


def demo(sd, wt):
    cmd = open(os.path.join(sd, "BUILD")).read().strip().replace("SEED_DIR", "SEED/x")
    cmd = cmd.replace("/tmp/", wt + "/SEED/")  # demo binaries stay inside the scratch worktree (parallel runs)
    sh("rm -rf SEED && mkdir -p SEED && cp -r %s SEED/x" % sd, cwd=wt)
    rc, out = sh(cmd, cwd=wt, timeout=1200)
    sh("rm -rf SEED build", cwd=wt)
    return rc, out[-800:]


def one(seed, jobs):
    sd = os.path.join(VERIF, "seeded", seed)
    pid = seed.split("_")[0]
    wt = "/tmp/wt_e_%s" % seed
    res = {"seed": seed, "property": pid, "at": time.strftime("%Y-%m-%dT%H:%M:%SZ", time.gmtime()), "how": "tools/eval_round.py (scratch worktree)"}
    sh("git -C /repo worktree remove --force %s" % wt)
    rc, o = sh("git -C /repo worktree add -q --detach %s HEAD" % wt)
    try:
        rc, out = demo(sd, wt)
        res["demo_unchanged_rc"] = rc
        if rc != 0:
            res["error"] = "demo does not pass on the unchanged tree"; res["demo_unchanged_out"] = out
            return res
        rc, o = sh("git -C %s apply %s/patch.diff" % (wt, sd))
        if rc != 0:
            res["error"] = "patch does not apply: " + o[-300:]
            return res
        rc, out = sh("CMOCKA_MESSAGE_OUTPUT=TAP make -k test 2>&1", cwd=wt)
        res["tests_ok"] = len(re.findall(r"^ok ", out, re.M)); res["tests_not_ok"] = len(re.findall(r"^not ok", out, re.M))
        sh("git clean -fdxq", cwd=wt)
        rc, out = demo(sd, wt)
        res["demo_patched_rc"] = rc; res["demo_patched_out"] = out[-600:]
        res["confirmed"] = (res["tests_ok"] == 15 and res["tests_not_ok"] == 0 and rc != 0)
        env = dict(os.environ); env["VERIF_REPO"] = wt; env["VERIF_JOBS"] = str(jobs)
        t0 = time.time()
        rc, out = sh("python3 check.py %s --tier quick --no-evidence" % pid, cwd=VERIF, env=env, timeout=7200)
        vio = [l for l in out.splitlines() if l.startswith("VIOLATION")]
        prob = [l for l in out.splitlines() if l.startswith("PROBLEM")]
        res["checks"] = {pid: {"exit": rc, "violations": [v[:300] for v in vio[:6]], "n_violations": len(vio), "problems": [p[:200] for p in prob[:3]], "wall_s": round(time.time() - t0, 1)}}
        res["detected_by"] = [pid] if rc == 1 else []
        return res
    finally:
        sh("git -C /repo worktree remove --force %s" % wt)
        json.dump(res, open(os.path.join(sd, "eval.json"), "w"), indent=1)
        mp = os.path.join(sd, "meta.json")
        meta = json.load(open(mp)) if os.path.exists(mp) else {}
        meta["confirmed_by_me"] = {"baseline_tests_ok": res.get("tests_ok"), "baseline_tests_not_ok": res.get("tests_not_ok"),
                                   "demo_exit_unchanged_tree": res.get("demo_unchanged_rc"), "demo_exit_with_change": res.get("demo_patched_rc"),
                                   "confirmed": bool(res.get("confirmed"))}
        meta["what_i_ran"] = "python3 tools/eval_round.py %s" % seed
        meta["detected_by_quick_check"] = res.get("detected_by", [])
        v = (res.get("checks", {}).get(pid, {}).get("violations") or [""])[0]
        meta["first_violation"] = v
        json.dump(meta, open(mp, "w"), indent=1)
        print("%s confirmed=%s tests=%s/%s demo=%s->%s check_exit=%s %s" % (seed, res.get("confirmed"), res.get("tests_ok"), res.get("tests_not_ok"),
              res.get("demo_unchanged_rc"), res.get("demo_patched_rc"), res.get("checks", {}).get(pid, {}).get("exit"), res.get("error", "") or v[40:200]), flush=True)


def main():
    a = sys.argv[1:]
    par = 4
    if a and a[0] == "-j":
        par = int(a[1]); a = a[2:]
    jobs = max(2, 16 // par)
    with ThreadPoolExecutor(par) as ex:
        list(ex.map(lambda s: one(s, jobs), a))


if __name__ == "__main__":
    main()
