#!/usr/bin/env python3
"""Semantics-preserving refactors of /repo: every listed check must stay quiet (exit 0; exit 2 = inconclusive is
tolerated and reported; exit 1 would be a false alarm). Usage: benign.py [name ...]"""
import json, os, re, subprocess, sys, time
REPO = "/repo"; VERIF = os.path.dirname(os.path.dirname(os.path.abspath(__file__)))
B = "lltdResponder/lltdBlock.c"; A = "lltdResponder/lltdAutomata.c"

REF = [
 ("probe_append_tail", ["C07", "C09", "C19", "C02"], B,
  "    probe->nextProbe = st->see_list;\n    st->see_list = probe;\n    st->see_list_count++;",
  "    probe->nextProbe = NULL;\n    if (!st->see_list) {\n        st->see_list = probe;\n    } else {\n        probe_t *tail = st->see_list;\n        while (tail->nextProbe) {\n            tail = (probe_t *)tail->nextProbe;\n        }\n        tail->nextProbe = probe;\n    }\n    st->see_list_count++;"),
 ("payload_byte_loop", ["C08", "C02", "C01"], B,
  "        lltd_port_memcpy(buffer + sizeof(lltd_demultiplex_header_t) + sizeof(qry_large_tlv_resp_t),\n                         (const uint8_t *)data + dataOffset,\n                         bytesToWrite);",
  "        for (uint16_t k_ = 0; k_ < bytesToWrite; k_++) {\n            buffer[sizeof(lltd_demultiplex_header_t) + sizeof(qry_large_tlv_resp_t) + k_] = ((const uint8_t *)data)[dataOffset + k_];\n        }"),
 ("see_cap_512", ["C19", "C07"], B, "#define LLTD_SEE_LIST_MAX 1024", "#define LLTD_SEE_LIST_MAX 512"),
 ("reset_zeroes_addresses", ["C09", "C05"], B,
  "                    st->mapper_known = 0;\n                    st->mapper_seq = 0;",
  "                    st->mapper_known = 0;\n                    lltd_port_memset(&st->mapper_real, 0, sizeof(st->mapper_real));\n                    lltd_port_memset(&st->mapper_apparent, 0, sizeof(st->mapper_apparent));\n                    st->mapper_seq = 0;"),
 ("hello_buffer_512", ["C03", "C02", "C18"], B,
  "    uint8_t *buffer = (uint8_t *)lltd_port_malloc(mtu);\n    if (!buffer) {\n        return;\n    }\n    lltd_port_memset(buffer, 0, mtu);\n\n    ethernet_address_t our_mac = {{0, 0, 0, 0, 0, 0}};\n    (void)lltd_port_get_mac_address(iface_ctx, &our_mac);\n\n    set_active_mapper(",
  "    if (mtu > 512) {\n        mtu = 512; /* a Hello never exceeds ~210 bytes */\n    }\n    uint8_t *buffer = (uint8_t *)lltd_port_malloc(mtu);\n    if (!buffer) {\n        return;\n    }\n    lltd_port_memset(buffer, 0, mtu);\n\n    ethernet_address_t our_mac = {{0, 0, 0, 0, 0, 0}};\n    (void)lltd_port_get_mac_address(iface_ctx, &our_mac);\n\n    set_active_mapper("),
 ("mapping_iterative", ["C14", "C01"], A,
  "    autom->last_ts = now;\n    if (timeout) {\n        return switch_state_mapping(autom, input, \"timeout\");\n    }\n    return autom;\n}\n\nautomata *init_automata_enumeration",
  "    autom->last_ts = now;\n    if (timeout) {\n        /* after a timeout the automaton is idle and nothing else can fire in the same instant */\n        for (int i = 0; i < autom->transitions_no; i++) {\n            if (autom->current_state == autom->transitions_table[i].from &&\n                autom->transitions_table[i].with == input) {\n                autom->current_state = autom->transitions_table[i].to;\n            }\n        }\n    }\n    return autom;\n}\n\nautomata *init_automata_enumeration"),
 ("reset_keeps_seq_and_gens", ["C09", "C05", "C02"], B,
  "                    st->mapper_known = 0;\n                    st->mapper_seq = 0;\n                    st->mapper_gen_topology = 0;\n                    st->mapper_gen_quick = 0;",
  "                    st->mapper_known = 0;"),
 ("query_set_mapper_after", ["C07", "C05", "C02"], B,
  "    st->mapper_seq = lltd_ntohs(inHeader->seqNumber);\n    st->mapper_real = inHeader->realSource;\n    st->mapper_apparent = inHeader->frameHeader.source;\n    st->mapper_known = 1;\n\n    size_t mtu = 0;",
  "    st->mapper_known = 1;\n    st->mapper_apparent = inHeader->frameHeader.source;\n    st->mapper_real = inHeader->realSource;\n    st->mapper_seq = lltd_ntohs(inHeader->seqNumber);\n\n    size_t mtu = 0;"),
 ("add_last_free_slot", ["C16", "C11", "C12"], A,
  "    for (int i = 0; i < SESSION_TABLE_MAX_ENTRIES; i++) {\n        session_entry *entry = &table->entries[i];\n        if (!entry->valid) {\n            mac_copy(entry->mapper_mac, mapper_mac);",
  "    for (int i = SESSION_TABLE_MAX_ENTRIES - 1; i >= 0; i--) {\n        session_entry *entry = &table->entries[i];\n        if (!entry->valid) {\n            mac_copy(entry->mapper_mac, mapper_mac);"),
 ("ack_scan_no_break", ["C11", "C01"], A,
  "                    if (mac_equal(stations[i].a, our_mac)) {\n                        acking = true;\n                        break;\n                    }",
  "                    if (!acking && mac_equal(stations[i].a, our_mac)) {\n                        acking = true;\n                    }"),
 ("remove_zeroes_entry", ["C16", "C12"], A,
  "            entry->generation == generation) {\n            entry->valid = false;\n            if (table->count > 0) {",
  "            entry->generation == generation) {\n            lltd_port_memset(entry, 0, sizeof(*entry));\n            if (table->count > 0) {"),
 ("probe_ack_own_buffer", ["C06", "C18", "C19", "C02"], B,
  "    if (ack) {\n        /*\n         * ACK frame back to mapper:",
  "    if (ack) {\n        lltd_port_free(probe);\n        probe = (lltd_demultiplex_header_t *)lltd_port_malloc(packageSize);\n        if (!probe) {\n            return true;\n        }\n        lltd_port_memset(probe, 0, packageSize);\n        /*\n         * ACK frame back to mapper:"),
]


def sh(cmd, cwd=None, timeout=7200):
    r = subprocess.run(cmd, shell=True, cwd=cwd, stdout=subprocess.PIPE, stderr=subprocess.STDOUT, text=True, timeout=timeout)
    return r.returncode, r.stdout


def main():
    sel = sys.argv[1:]
    out_p = os.path.join(VERIF, "tools", "benign_results.json")
    results = json.load(open(out_p)) if os.path.exists(out_p) else {}
    rc, o = sh("git status --porcelain", cwd=REPO)
    if o.strip():
        print("refusing: /repo dirty"); return 2
    for (name, pids, f, old, new) in REF:
        if sel and not any(s in name for s in sel):
            continue
        path = os.path.join(REPO, f)
        src = open(path).read()
        if old not in src:
            print("%-26s SKIP (pattern not found)" % name); continue
        try:
            open(path, "w").write(src.replace(old, new, 1))
            rc, o = sh("CMOCKA_MESSAGE_OUTPUT=TAP make -k test 2>&1", cwd=REPO)
            nok = len(re.findall(r"^ok ", o, re.M))
            res = {}
            for pid in pids:
                rc, o = sh("python3 check.py %s --no-evidence" % pid, cwd=VERIF)
                vio = [l for l in o.splitlines() if l.startswith("VIOLATION")]
                prob = [l for l in o.splitlines() if l.startswith("PROBLEM")]
                res[pid] = {"exit": rc, "violations": [v[:200] for v in vio[:2]], "problems": [p[:200] for p in prob[:2]]}
                print("%-26s %s tests_ok=%d exit=%d %s %s" % (name, pid, nok, rc, (vio[0][50:220] if vio else ""), (prob[0][:160] if prob else "")), flush=True)
            results[name] = res
        finally:
            sh("git checkout -- .", cwd=REPO)
        json.dump(results, open(out_p, "w"), indent=1)
    return 0


if __name__ == "__main__":
    sys.exit(main())
