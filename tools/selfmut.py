#!/usr/bin/env python3
"""Hand-made mutation pass (DESIGN section 10): apply one small change to /repo, run the target
property's quick check, restore. Usage: selfmut.py [name-substring ...]   Results -> tools/selfmut_results.json"""
import json, os, re, subprocess, sys, time

REPO = "/repo"; VERIF = os.path.dirname(os.path.dirname(os.path.abspath(__file__)))
B = "lltdResponder/lltdBlock.c"; A = "lltdResponder/lltdAutomata.c"; T = "lltdResponder/lltdTlvOps.c"; W = "lltdResponder/lltdWire.c"
E = "os/esp32/daemon/lltd_esp32.c"; L = "os/linux/lltd_port.c"

MUT = [
 ("probe_no_memset", "C02", B, "    lltd_port_memset(probe, 0, packageSize);\n", ""),
 ("hello_swap_mappers", "C03", W, "    helloHeader->apparentMapper = *apparentMapper;\n    helloHeader->currentMapper = *currentMapper;", "    helloHeader->apparentMapper = *currentMapper;\n    helloHeader->currentMapper = *apparentMapper;"),
 ("hello_wrong_gen_slot", "C03", B, "    uint16_t *generation_slot = mapper_generation_for_tos(st, inFrameHeader->tos);", "    uint16_t *generation_slot = mapper_generation_for_tos(st, tos_discovery);"),
 ("rssi_zero_extend", "C04", T, "lltd_htonl((uint32_t)(int32_t)rssi_dbm)", "lltd_htonl((uint32_t)(uint8_t)rssi_dbm)"),
 ("hostname_clamp_33", "C04", T, "    size_t written = lltd_port_get_hostname(base + offset + sizeof(*hostnameTLV), 32);\n    if (written > 32) {\n        written = 32;", "    size_t written = lltd_port_get_hostname(base + offset + sizeof(*hostnameTLV), 32);\n    if (written > 33) {\n        written = 33;"),
 ("linux_speed_div", "C04", L, "*out_speed_100bps = iface->LinkSpeed / 100U;", "*out_speed_100bps = iface->LinkSpeed / 1000U * 10U;"),
 ("quick_reset_keeps_mapper", "C05", B, "                case opcode_reset:\n                    st->mapper_known = 0;\n                    st->mapper_gen_quick = 0;", "                case opcode_reset:\n                    st->mapper_gen_quick = 0;"),
 ("emit_ack_first", "C06", B, "bool ack = (i == numDescs - 1);", "bool ack = (i == 0);"),
 ("emit_sleep_after_send", "C06", B, "    lltd_port_sleep_ms((uint32_t)pause_ms);\n    if (lltd_port_send_frame(iface_ctx, probe, packageSize) < 0) {", "    int rc_ = lltd_port_send_frame(iface_ctx, probe, packageSize);\n    lltd_port_sleep_ms((uint32_t)pause_ms);\n    if (rc_ < 0) {"),
 ("probe_dedupe_src_only", "C07", B, "        if (compareEthernetAddress(&probe->sourceAddr, &cur->sourceAddr) &&\n            compareEthernetAddress(&probe->realSourceAddr, &cur->realSourceAddr)) {", "        if (compareEthernetAddress(&probe->sourceAddr, &cur->sourceAddr)) {"),
 ("query_more_off_by_one", "C07", B, "bool more = st->see_list_count > num_descs;", "bool more = st->see_list_count > (uint32_t)num_descs + 1;"),
 ("qltlv_more_ge", "C08", B, "} else if (dataSize > dataOffset + maxPayload) {", "} else if (dataSize >= dataOffset + maxPayload) {"),
 ("qltlv_name_leak", "C19", B, "            if (lltd_port_get_friendly_name(&data, &dataSize) == 0) {\n                should_free = true;\n            }", "            if (lltd_port_get_friendly_name(&data, &dataSize) == 0) {\n                should_free = (dataSize != 0);\n            }"),
 ("reset_keeps_known", "C09", B, "                    lltd_state_clear_icon_cache(st);\n                    st->mapper_known = 0;\n", "                    lltd_state_clear_icon_cache(st);\n"),
 ("probe_realdst_mapper", "C10", B, "                    (const ethernet_address_t *)&dst,                               /* realDest: emitee dst */", "                    &st->mapper_real,"),
 ("topo_reset_checks_source", "C11", A, "if (mac_equal(header->realDestination.a, broadcast)) {", "if (mac_equal(header->realSource.a, broadcast)) {"),
 ("tick_no_timestamp", "C12", A, "                        if (port->last_hello_tx_ms) {\n                            *port->last_hello_tx_ms = now_ms;\n                        }", ""),
 ("tick_send_when_complete", "C12", A, "            } else if (all_complete) {\n                switch_state_enumeration(enumeration, enum_sess_complete, \"tick\");", "            } else if (all_complete && sessions->count > 1) {\n                switch_state_enumeration(enumeration, enum_sess_complete, \"tick\");"),
 ("band_no_clamp", "C13", A, "band->Ni = (new_ni > BAND_NMAX) ? BAND_NMAX : (uint32_t)new_ni;", "band->Ni = (new_ni > BAND_NMAX + 1) ? BAND_NMAX : (uint32_t)new_ni;"),
 ("mapping_emit_done_to_idle", "C14", A, "t[10].from = 2; t[10].to = 1; t[10].with = -3;", "t[10].from = 2; t[10].to = 0; t[10].with = -3;"),
 ("mapping_timeout_ge", "C14", A, "    if (current_state->timeout != 0 && diff > (uint64_t)current_state->timeout) {\n        timeout = true;\n        input = -1;\n    }\n\n    int find = -1;\n    for (int i = 0; i < autom->transitions_no; i++) {\n        if (autom->current_state == autom->transitions_table[i].from &&\n            autom->transitions_table[i].with == input) {\n            new_state = autom->transitions_table[i].to;\n            find = i;\n        }\n    }\n\n    if (autom->current_state != new_state || find >= 0 || timeout) {\n        lltd_port_log_debug(\"%s: Switching from %s with %d%s to %s\",", "    if (current_state->timeout != 0 && diff > (uint64_t)current_state->timeout + 1) {\n        timeout = true;\n        input = -1;\n    }\n\n    int find = -1;\n    for (int i = 0; i < autom->transitions_no; i++) {\n        if (autom->current_state == autom->transitions_table[i].from &&\n            autom->transitions_table[i].with == input) {\n            new_state = autom->transitions_table[i].to;\n            find = i;\n        }\n    }\n\n    if (autom->current_state != new_state || find >= 0 || timeout) {\n        lltd_port_log_debug(\"%s: Switching from %s with %d%s to %s\","),
 ("session_row15", "C15", A, "t[15].from = 3; t[15].to = 2; t[15].with = sess_discover_noack_chgd_xid;", "t[15].from = 3; t[15].to = 2; t[15].with = sess_discover_noack;"),
 ("table_remove_no_count", "C16", A, "            entry->valid = false;\n            if (table->count > 0) {\n                table->count--;\n            }\n            break;", "            entry->valid = false;\n            break;"),
 ("table_expiry_ge", "C16", A, "if (now_s > entry->last_activity_ts + 60) {", "if (now_s >= entry->last_activity_ts + 60) {"),
 ("table_add_keeps_all_complete", "C16", A, "            table->count++;\n            table->all_complete = false;", "            table->count++;"),
 ("state_lookup_cache", "C17", B, "static lltd_iface_state *lltd_state_for_iface(void *iface_ctx) {\n", "static lltd_iface_state *lltd_state_for_iface(void *iface_ctx) {\n    static lltd_iface_state *last = NULL;\n    if (last && last->see_list_count == 0 && last->iface_ctx != NULL && g_iface_states == last) {\n        return last;\n    }\n    last = g_iface_states;\n"),
 ("probe_send_fail_leak", "C18", B, "        log_warning(\"sendProbeMsg: send_frame failed (%zu bytes, opcode=%u)\", packageSize, code);\n        lltd_port_free(probe);\n        return false;", "        log_warning(\"sendProbeMsg: send_frame failed (%zu bytes, opcode=%u)\", packageSize, code);\n        return false;"),
 ("probe_dup_leak", "C19", B, "    if (found || st->see_list_count >= LLTD_SEE_LIST_MAX) {\n        /* duplicate, or the bounded record is full: a flood must not grow memory without limit */\n        lltd_port_free(probe);\n        return;", "    if (found || st->see_list_count >= LLTD_SEE_LIST_MAX) {\n        /* duplicate, or the bounded record is full: a flood must not grow memory without limit */\n        if (!found) lltd_port_free(probe);\n        return;"),
 ("query_maxdescs_plus1", "C01", B, "max_descs = (mtu - sizeof(lltd_demultiplex_header_t) - sizeof(*respH)) / sizeof(lltd_probe_desc_wire_t);", "max_descs = (mtu - sizeof(lltd_demultiplex_header_t) - sizeof(*respH)) / sizeof(lltd_probe_desc_wire_t) + 1;"),
 ("esp32_len_check", "C01", E, "length < sizeof(lltd_demultiplex_header_t)", "length < sizeof(ethernet_header_t)"),
 ("emit_clamp_off_by_one", "C01", B, "maxDescs = (mtu - sizeof(*lltdHeader) - sizeof(*emitHeader)) / sizeof(emitee_descs);", "maxDescs = (mtu - sizeof(*lltdHeader)) / sizeof(emitee_descs);"),
]


def sh(cmd, cwd=None, timeout=3600):
    r = subprocess.run(cmd, shell=True, cwd=cwd, stdout=subprocess.PIPE, stderr=subprocess.STDOUT, text=True, timeout=timeout)
    return r.returncode, r.stdout


def main():
    sel = sys.argv[1:]
    out_p = os.path.join(VERIF, "tools", "selfmut_results.json")
    results = json.load(open(out_p)) if os.path.exists(out_p) else {}
    rc, o = sh("git status --porcelain", cwd=REPO)
    if o.strip():
        print("refusing: /repo dirty"); return 2
    for (name, pid, f, old, new) in MUT:
        if sel and not any(s in name or s == pid for s in sel):
            continue
        path = os.path.join(REPO, f)
        src = open(path).read()
        if old not in src:
            print("%-28s SKIP (pattern not found)" % name); results[name] = {"property": pid, "status": "pattern_not_found"}; continue
        try:
            open(path, "w").write(src.replace(old, new, 1))
            rc, o = sh("CMOCKA_MESSAGE_OUTPUT=TAP make -k test 2>&1", cwd=REPO)
            nok = len(re.findall(r"^ok ", o, re.M))
            t0 = time.time()
            rc, o = sh("python3 check.py %s --no-evidence" % pid, cwd=VERIF)
            vio = [l for l in o.splitlines() if l.startswith("VIOLATION")]
            results[name] = {"property": pid, "file": f, "tests_ok": nok, "check_exit": rc, "violations": [v[:220] for v in vio[:3]], "wall_s": round(time.time() - t0, 1)}
            print("%-28s %s tests_ok=%d exit=%d violations=%d (%.0fs) %s" % (name, pid, nok, rc, len(vio), time.time() - t0, (vio[0][60:200] if vio else "")))
        finally:
            sh("git checkout -- .", cwd=REPO)
        json.dump(results, open(out_p, "w"), indent=1)
    return 0


if __name__ == "__main__":
    sys.exit(main())
