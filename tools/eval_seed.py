#!/usr/bin/env python3
"""eval_seed.py <seed-dir> [--checks C07,C02,...|all] [--tier quick]

Confirms a seeded change and runs checks against it:
  1. demo passes on the unchanged /repo tree
  2. patch applies to /repo; baseline tests still pass (15 ok); demo fails
  3. runs the requested checks against the patched tree, records which report a VIOLATION
  4. restores /repo (git checkout -- .)
Writes <seed-dir>/eval.json. /repo is always restored, also on error."""
import json, os, re, subprocess, sys, time

REPO = "/repo"
VERIF = os.path.dirname(os.path.dirname(os.path.abspath(__file__)))


def sh(cmd, cwd=None, timeout=3600):
    r = subprocess.run(cmd, shell=True, cwd=cwd, stdout=subprocess.PIPE, stderr=subprocess.STDOUT, text=True, timeout=timeout)
    return r.returncode, r.stdout


def run_demo(seed):
    """BUILD holds one shell line to be run from the root of a checkout; SEED_DIR stands for a copy of the seed directory inside it."""
    cmd = open(os.path.join(seed, "BUILD")).read().strip().replace("SEED_DIR", "SEED/x")
    sh("rm -rf SEED && mkdir -p SEED && cp -r %s SEED/x" % seed, cwd=REPO)
    try:
        rc, out = sh(cmd, cwd=REPO, timeout=1200)
    finally:
        sh("rm -rf SEED build && git clean -fdxq", cwd=REPO)
    return rc, out[-1500:]


def main():
    seed = os.path.abspath(sys.argv[1])
    checks = "target"
    tier = "quick"
    for i, a in enumerate(sys.argv):
        if a == "--checks": checks = sys.argv[i + 1]
        if a == "--tier": tier = sys.argv[i + 1]
    meta_p = os.path.join(seed, "meta.json")
    meta = json.load(open(meta_p)) if os.path.exists(meta_p) else {}
    target = meta.get("property", os.path.basename(seed).split("_")[0])
    res = {"seed": os.path.basename(seed), "property": target, "at": time.strftime("%Y-%m-%dT%H:%M:%SZ", time.gmtime())}
    rc, out = sh("git status --porcelain", cwd=REPO)
    if out.strip():
        print("refusing: /repo has local changes:\n" + out); return 2
    try:
        rc, out = run_demo(seed)
        res["demo_unchanged_rc"] = rc
        if rc != 0:
            res["error"] = "demo does not pass on the unchanged tree"; res["demo_unchanged_out"] = out
            print(res["error"]); print(out); return finish(seed, res, 3)
        rc, out = sh("git apply %s" % os.path.join(seed, "patch.diff"), cwd=REPO)
        if rc != 0:
            res["error"] = "patch does not apply: " + out[-500:]
            print(res["error"]); return finish(seed, res, 3)
        rc, out = sh("CMOCKA_MESSAGE_OUTPUT=TAP make -k test 2>&1", cwd=REPO)
        nok = len(re.findall(r"^ok ", out, re.M)); nnot = len(re.findall(r"^not ok", out, re.M))
        res["tests_ok"] = nok; res["tests_not_ok"] = nnot
        rc, out = run_demo(seed)
        res["demo_patched_rc"] = rc; res["demo_patched_out"] = out[-600:]
        confirmed = (nok == 15 and nnot == 0 and rc != 0)
        res["confirmed"] = confirmed
        print("seed %s: tests ok=%d notok=%d demo_patched_rc=%d confirmed=%s" % (res["seed"], nok, nnot, rc, confirmed))
        if checks == "target":
            lst = [target]
        elif checks == "all":
            lst = ["C%02d" % i for i in range(1, 20)]
        else:
            lst = checks.split(",")
        det = {}
        for pid in lst:
            t0 = time.time()
            rc, out = sh("python3 check.py %s --tier %s --no-evidence" % (pid, tier), cwd=VERIF, timeout=7200)
            vio = [l for l in out.splitlines() if l.startswith("VIOLATION")]
            prob = [l for l in out.splitlines() if l.startswith("PROBLEM")]
            det[pid] = {"exit": rc, "violations": [v[:300] for v in vio[:6]], "n_violations": len(vio), "problems": [p[:200] for p in prob[:3]], "wall_s": round(time.time() - t0, 1)}
            print("  check %s: exit=%d violations=%d problems=%d (%.0fs)" % (pid, rc, len(vio), len(prob), time.time() - t0))
        res["checks"] = det
        res["detected_by"] = [p for p, d in det.items() if d["exit"] == 1]
        return finish(seed, res, 0)
    finally:
        sh("git checkout -- . && git clean -fdxq; rm -f /tmp/seed_demo", cwd=REPO)


def finish(seed, res, rc):
    with open(os.path.join(seed, "eval.json"), "w") as f:
        json.dump(res, f, indent=1)
    return rc


if __name__ == "__main__":
    sys.exit(main())
