#!/usr/bin/env python3
"""import_seed.py <Cxx> : copy /tmp/wt_<Cxx>/SEED/{a,b} into /verif/seeded/<Cxx>_{a,b}/ with BUILD + meta.json skeleton."""
import json, os, re, shutil, sys
pid = sys.argv[1]
variants = sys.argv[2] if len(sys.argv) > 2 else "ab"
root = sys.argv[3] if len(sys.argv) > 3 else "/tmp/wt_%s"
for v in variants:
    src = (root % pid) + "/SEED/" + v
    if not os.path.isdir(src):
        print("missing", src); continue
    dst = "/verif/seeded/%s_%s" % (pid, v)
    os.makedirs(dst, exist_ok=True)
    for f in os.listdir(src):
        if os.path.isfile(os.path.join(src, f)) and not f.endswith(".bin") and os.path.getsize(os.path.join(src, f)) < 400000:
            shutil.copy(os.path.join(src, f), os.path.join(dst, f))
    lines = open(os.path.join(src, "demo.c")).read().split("\n")[:80]
    cmd = []; on = False
    for ln in lines:
        t = re.sub(r"^\s*\*\s?", "", ln).rstrip()
        if not on and re.match(r"^\s*(mkdir -p build|gcc|cc )", t):
            on = True
        if on:
            cmd.append(t.strip())
            if not t.endswith("\\"):
                break
    c = " ".join(x.rstrip("\\").strip() for x in cmd)
    c = c.replace("SEED/%s/" % v, "SEED_DIR/")
    open(os.path.join(dst, "BUILD"), "w").write(c + "\n")
    notes = open(os.path.join(src, "NOTES.md")).read() if os.path.exists(os.path.join(src, "NOTES.md")) else ""
    meta = {"property": pid, "variant": v, "source": "independent sub-agent given only the property text and its own scratch worktree",
            "needs_to_manifest": "", "summary": notes[:1500]}
    json.dump(meta, open(os.path.join(dst, "meta.json"), "w"), indent=1)
    print(dst, "BUILD:", c[:160])
