#!/usr/bin/env python3
"""cross.py <seed> [...]: run ALL quick checks against a seeded change (in a scratch worktree via VERIF_REPO, /repo untouched)
and record which checks report a violation -> seeded/<seed>/cross.json. Used to look for cross-property false alarms."""
import json, os, subprocess, sys, time
VERIF = os.path.dirname(os.path.dirname(os.path.abspath(__file__)))
def sh(cmd, cwd=None, env=None, timeout=7200):
    r = subprocess.run(cmd, shell=True, cwd=cwd, env=env, stdout=subprocess.PIPE, stderr=subprocess.STDOUT, text=True, timeout=timeout)
    return r.returncode, r.stdout
for seed in sys.argv[1:]:
    sd = os.path.join(VERIF, "seeded", seed)
    wt = "/tmp/wt_x_%s" % seed
    sh("git -C /repo worktree remove --force %s" % wt)
    rc, o = sh("git -C /repo worktree add -q --detach %s HEAD && git -C %s apply %s/patch.diff" % (wt, wt, sd))
    if rc != 0:
        print(seed, "setup failed", o); continue
    env = dict(os.environ); env["VERIF_REPO"] = wt; env["VERIF_JOBS"] = os.environ.get("VERIF_JOBS", "8")
    res = {}
    try:
        for i in range(1, 20):
            pid = "C%02d" % i
            t0 = time.time()
            rc, o = sh("python3 check.py %s --no-evidence" % pid, cwd=VERIF, env=env)
            vio = [l[:260] for l in o.splitlines() if l.startswith("VIOLATION")]
            res[pid] = {"exit": rc, "violations": vio[:4], "wall_s": round(time.time() - t0, 1)}
            print(seed, pid, rc, len(vio), flush=True)
        json.dump(res, open(os.path.join(sd, "cross.json"), "w"), indent=1)
    finally:
        sh("git -C /repo worktree remove --force %s" % wt)
