#!/usr/bin/env python3
"""regress.py [seed ...]: re-run the target property's quick check against every seeded change (scratch worktree +
VERIF_REPO, /repo untouched) after the checks changed. Writes tools/regress_results.json; prints seeds NOT reported."""
import json, os, subprocess, sys, time, glob
VERIF = os.path.dirname(os.path.dirname(os.path.abspath(__file__)))
def sh(cmd, cwd=None, env=None, timeout=7200):
    r = subprocess.run(cmd, shell=True, cwd=cwd, env=env, stdout=subprocess.PIPE, stderr=subprocess.STDOUT, text=True, timeout=timeout)
    return r.returncode, r.stdout
seeds = sys.argv[1:] or sorted(os.path.basename(d) for d in glob.glob(os.path.join(VERIF, "seeded", "C??_?")))
outp = os.path.join(VERIF, "tools", "regress_results.json")
res = json.load(open(outp)) if os.path.exists(outp) else {}
for seed in seeds:
    sd = os.path.join(VERIF, "seeded", seed)
    pid = seed.split("_")[0]
    wt = "/tmp/wt_r_%s" % seed
    sh("git -C /repo worktree remove --force %s" % wt)
    rc, o = sh("git -C /repo worktree add -q --detach %s HEAD && git -C %s apply %s/patch.diff" % (wt, wt, sd))
    if rc != 0:
        print(seed, "setup failed", o[-300:]); continue
    env = dict(os.environ); env["VERIF_REPO"] = wt; env["VERIF_JOBS"] = os.environ.get("VERIF_JOBS", "8")
    try:
        t0 = time.time()
        rc, o = sh("python3 check.py %s --no-evidence" % pid, cwd=VERIF, env=env)
        vio = [l[:240] for l in o.splitlines() if l.startswith("VIOLATION")]
        res[seed] = {"property": pid, "exit": rc, "n_violations": len(vio), "first": vio[:1], "wall_s": round(time.time() - t0, 1)}
        print(seed, pid, "exit=%d" % rc, len(vio), "%.0fs" % (time.time() - t0), "" if rc == 1 else "   <-- NOT REPORTED", flush=True)
    finally:
        sh("git -C /repo worktree remove --force %s" % wt)
    json.dump(res, open(outp, "w"), indent=1)
